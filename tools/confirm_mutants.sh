#!/bin/bash
# Confirms every staged mutant in a scratch worktree of /repo HEAD:
#   with the patch: demo fails, existing suite passes; without it: demo passes.
# Writes /verif/seeded/_staging/confirm.log (one line per mutant) .
WT=/tmp/wt-confirm
LOG=/verif/seeded/_staging/confirm.log
touch $LOG; sed -i "/^DONE/d" $LOG
if [ ! -d $WT ]; then git -C /repo worktree add --detach $WT HEAD >/dev/null 2>&1; cp -r /repo/target $WT/target; fi
cd $WT || exit 2
git checkout -q --detach $(git -C /repo rev-parse HEAD); git checkout -q -- . ; git clean -fdq tests src
for d in /verif/seeded/_staging/C*/; do
  id=$(basename $d)
  for k in 1 2; do
    patch=$d/m$k.patch.diff; [ -f $d/m$k.ported.diff ] && patch=$d/m$k.ported.diff
    demo=$d/m$k.demo.rs
    [ -f $patch ] || continue
    grep -q "^$id/m$k " $LOG && continue
    git checkout -q -- . ; git clean -fdq tests src
    cp $demo tests/demo_$k.rs
    # without the patch: demo passes
    base=$(cargo nextest run --offline --no-fail-fast --test demo_$k 2>&1 | grep -E "^\s+Summary" | tail -1)
    if ! git apply --3way $patch 2>/dev/null; then
      if ! patch -p1 -s --no-backup-if-mismatch -F3 < $patch >/dev/null 2>&1; then echo "$id/m$k APPLY-FAILED" >> $LOG; git checkout -q -- .; continue; fi
    fi
    git reset -q
    with=$(cargo nextest run --offline --no-fail-fast --test demo_$k 2>&1 | grep -E "^\s+Summary|error\[" | tail -1)
    suite=$(cargo nextest run --workspace --offline --no-fail-fast --test-threads 8 --tool-config-file pb:/w/lib/nextest.toml --profile pb -E "not binary(demo_$k)" 2>&1 | grep -E "^\s+Summary" | tail -1)
    echo "$id/m$k patch=$(basename $patch) | base: $base | with-patch demo: $with | suite: $suite" >> $LOG
  done
done
git checkout -q -- . ; git clean -fdq tests src
echo DONE >> $LOG
