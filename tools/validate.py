#!/opt/veriftools/pyvenv/bin/python
import json,jsonschema,sys,glob
jsonschema.validate(json.load(open('/verif/MANIFEST.json')),json.load(open('/root/.vp/MANIFEST.schema.json')))
m=json.load(open('/verif/MANIFEST.json'))
props=[json.loads(l)['id'] for l in open('/verif/properties.jsonl')]
claimed=[c['property_id'] for c in m['checks']]; na=[x['property_id'] for x in m.get('not_applicable',[])]
assert sorted(claimed+na)==sorted(props),(sorted(claimed+na),props)
for c in m['checks']:
    try:
        jsonschema.validate(json.load(open('/verif/'+c['evidence_file'])),json.load(open('/root/.vp/EVIDENCE.schema.json')))
    except FileNotFoundError: print('missing evidence',c['property_id'])
print('manifest+evidence ok; claimed',claimed)
