#!/bin/bash
# usage: try_mutant.sh <seeded/<id> dir | patch file> <PROP> [<PROP>...]
# applies the change to /repo, runs the quick checks, reverts. Prints one block per check.
src="$1"; shift
if [ -d "$src" ]; then
  patch="$src/patch.diff"; [ -f "$src/patch.ported.diff" ] && patch="$src/patch.ported.diff"
else
  patch="$src"; [ -f "${patch%.patch.diff}.ported.diff" ] && patch="${patch%.patch.diff}.ported.diff"
fi
patch=$(readlink -f "$patch")
cd /repo || exit 2
if [ -n "$(git status --porcelain --untracked-files=no)" ]; then echo "REPO DIRTY - refusing"; exit 2; fi
if ! git apply --3way "$patch" 2>/tmp/apply.err; then
  git checkout -q HEAD -- . 
  if ! patch -p1 --no-backup-if-mismatch -F3 < "$patch" >/tmp/apply.err 2>&1; then echo "APPLY-FAILED $patch"; cat /tmp/apply.err; git checkout -q HEAD -- . ; find src -name '*.rej' -delete; exit 2; fi
fi
git reset -q
for p in "$@"; do
  out=$(cd /verif && VERIF_NO_MINIMISE=${VERIF_NO_MINIMISE:-} ./check "$p" quick 2>&1); rc=$?
  echo "== $(basename $(dirname $patch))/$(basename $patch) vs $p: exit=$rc"
  echo "$out" | grep -E "^(VIOLATION|  class|HARNESS|KNOWN)" | head -8
done
git checkout -q HEAD -- .
git status --porcelain --untracked-files=no | head
