#!/bin/bash
# determinism self-test for every claimed property: each seed run twice (16 vs 3 worker processes)
cd "$(dirname "$0")/.." || exit 2
n=${1:-400}
rc=0
for p in $(python3 -c "import json;print(' '.join(c['property_id'] for c in json.load(open('MANIFEST.json'))['checks']))"); do
  k=$n; [ "$p" = C04 ] && k=$((n/4))
  ./check selftest $p $k 2>&1 | tail -1 || rc=2
done
exit $rc
