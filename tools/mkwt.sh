#!/bin/bash
# usage: mkwt.sh <name>  -> creates scratch worktree /tmp/wt-<name> of /repo HEAD with a warm target dir
set -e
d=/tmp/wt-$1
git -C /repo worktree add --detach "$d" HEAD >/dev/null 2>&1
cp -r /repo/target "$d/target"
echo "$d"
