#!/bin/bash
# Applies every filed seeded change to /repo in turn and runs the quick check of its property.
# Output: one line per change in seeded/recheck.log
cd /verif
out=seeded/recheck.log; : > $out
for d in seeded/C*/; do
  id=$(basename $d)
  prop=$(python3 -c "import json;print(json.load(open('$d/meta.json'))['property'])")
  r=$(VERIF_NO_MINIMISE=1 tools/try_mutant.sh $d $prop 2>&1 | grep -E "^==|VIOLATION|class|APPLY|REPO|HARNESS" | tr '\n' ' ' | cut -c1-400)
  echo "$id $prop :: $r" >> $out
done
echo DONE >> $out
