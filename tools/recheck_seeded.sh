#!/bin/bash
# Applies every filed seeded change to /repo in turn and runs the quick check that is recorded
# as catching it (meta.json caught_by; the change's own property if nothing catches it).
# Output: one line per change in seeded/recheck.log. Optional arguments: ids to re-check.
cd /verif
out=seeded/recheck.log
[ $# -eq 0 ] && : > $out
for d in seeded/C*/; do
  id=$(basename $d)
  if [ $# -gt 0 ]; then case " $* " in *" $id "*) ;; *) continue;; esac; fi
  prop=$(python3 -c "
import json
m=json.load(open('$d/meta.json')); cb=m.get('caught_by','')
print(m['property'] if (cb.startswith('NOT') or m['property'] in cb or not cb) else cb.split(',')[0].strip())")
  r=$(VERIF_NO_MINIMISE=1 tools/try_mutant.sh $d $prop 2>&1 | grep -E "^==|VIOLATION|class|APPLY|REPO|HARNESS" | tr '\n' ' ' | cut -c1-400)
  [ $# -gt 0 ] && sed -i "/^$id /d" $out
  echo "$id $prop :: $r" >> $out
done
[ $# -eq 0 ] && echo DONE >> $out
