mod ctrl;
mod driver;
mod e1;
mod e2;
mod e3;
mod e4;
mod e5;
mod http;
mod model;
mod props;
mod rng;
mod simdisk;
mod world;

use std::collections::BTreeMap;

use serde_json::{json, Value};

fn usage() -> ! {
    eprintln!(
        "usage:\n  xs-sim run <PROP> <quick|thorough>\n  xs-sim worker <PROP> <tier> <seed> <start> <stride> <count> <deadline_s>\n  xs-sim replay <file>\n  xs-sim exec-plan <engine> <planfile>\n  xs-sim selftest <PROP> <n_seeds>\n  xs-sim show <PROP> <seed-index>"
    );
    std::process::exit(2);
}

fn main() {
    // quiet panics of xs threads (they are reported through the oracles); keep harness panics
    let args: Vec<String> = std::env::args().collect();
    if args.len() < 2 {
        usage();
    }
    if std::env::var("XS_SIM_PANIC_TRACE").is_err() {
        std::panic::set_hook(Box::new(|_| {}));
    }
    match args[1].as_str() {
        "run" => {
            if args.len() < 4 {
                usage();
            }
            let code = driver::run(&args[2], &args[3]);
            cleanup();
            std::process::exit(code);
        }
        "worker" => {
            if args.len() < 9 {
                usage();
            }
            let p = |i: usize| args[i].parse::<u64>().unwrap_or_else(|_| usage());
            worker(&args[2], &args[3], p(4), p(5), p(6), p(7), p(8));
        }
        "replay" => {
            if args.len() < 3 {
                usage();
            }
            let code = driver::replay(&args[2]);
            cleanup();
            std::process::exit(code);
        }
        "exec-plan" => {
            if args.len() < 4 {
                usage();
            }
            let plan: Value = serde_json::from_str(&std::fs::read_to_string(&args[3]).expect("read plan")).expect("parse plan");
            let r = props::exec_plan(&args[2], &plan, "exec");
            let out = match (&r.violation, &r.harness) {
                (Some(v), _) => json!({"result": "violation", "class": v.class, "text": v.text, "trace": r.trace, "plan_patch": r.plan_patch}),
                (None, Some(h)) => json!({"result": "harness", "text": h}),
                _ => json!({"result": "ok", "trace": r.trace}),
            };
            println!("{}", out);
        }
        "selftest" => {
            if args.len() < 4 {
                usage();
            }
            std::process::exit(driver::selftest(&args[2], args[3].parse().unwrap_or(200)));
        }
        "show" => {
            if args.len() < 4 {
                usage();
            }
            let spec = props::spec(&args[2]).unwrap_or_else(|| usage());
            let seed: u64 = std::env::var("VERIF_SEED").ok().and_then(|s| s.parse().ok()).unwrap_or(1);
            let idx: u64 = args[3].parse().unwrap();
            let plan = props::gen_plan(spec, props::engine_for(spec, idx), false, rng::derive(seed, idx));
            let r = props::exec_plan(spec.engine, &plan, "show");
            for l in &r.trace {
                println!("{}", l);
            }
            println!("violation: {:?}\nharness: {:?}\nprobes: {:?}", r.violation, r.harness, r.probes);
        }
        _ => usage(),
    }
    cleanup();
}

fn cleanup() {
    // background closers of this process die with it; remove the scratch directory
    std::thread::sleep(std::time::Duration::from_millis(50));
    let _ = std::fs::remove_dir_all(world::scratch_root());
}

/// Runs `count` seeds sequentially in this process and prints one JSON summary.
fn worker(prop: &str, tier: &str, seed: u64, start: u64, stride: u64, count: u64, deadline_s: u64) {
    let spec = props::spec(prop).unwrap_or_else(|| usage());
    let thorough = tier == "thorough";
    let t0 = std::time::Instant::now();
    let mut runs = 0u64;
    let mut probes: BTreeMap<String, u64> = BTreeMap::new();
    let mut hashes: Vec<u64> = Vec::new();
    let mut all_hashes: Vec<(u64, u64)> = Vec::new();
    let mut decisions = 0u64;
    let mut sim_ms = 0u64;
    let mut violations: Vec<Value> = Vec::new();
    let mut per_class: BTreeMap<String, u64> = BTreeMap::new();
    let mut harness: Vec<Value> = Vec::new();
    let mut samples: Vec<Value> = Vec::new();
    let mut cut_short = false;
    // watchdog: a single run that makes no progress for a long wall-clock time (a dependency
    // stuck after a failed thread spawn under memory pressure, say) must end the check as a
    // harness error instead of hanging it
    let progress = std::sync::Arc::new(std::sync::atomic::AtomicU64::new(0));
    {
        let progress = progress.clone();
        let limit_s = std::env::var("VERIF_RUN_STUCK_S").ok().and_then(|v| v.parse().ok()).unwrap_or(900u64);
        let prop = prop.to_string();
        std::thread::spawn(move || {
            let mut last = (u64::MAX, std::time::Instant::now());
            loop {
                std::thread::sleep(std::time::Duration::from_secs(5));
                let cur = progress.load(std::sync::atomic::Ordering::Relaxed);
                if cur != last.0 {
                    last = (cur, std::time::Instant::now());
                } else if last.1.elapsed().as_secs() >= limit_s {
                    eprintln!("watchdog: {} run index {} made no progress for {} s", prop, cur, limit_s);
                    let _ = std::fs::remove_dir_all(world::scratch_root());
                    std::process::exit(3);
                }
            }
        });
    }
    for k in 0..count {
        progress.store(start + k * stride, std::sync::atomic::Ordering::Relaxed);
        if t0.elapsed().as_secs() >= deadline_s {
            cut_short = true;
            break;
        }
        let idx = start + k * stride;
        let run_seed = rng::derive(seed, idx);
        let plan = props::gen_plan(spec, props::engine_for(spec, idx), thorough, run_seed);
        let r = props::exec_plan(spec.engine, &plan, &format!("w{}", start));
        runs += 1;
        decisions += r.decisions;
        sim_ms += r.sim_ms;
        let h = rng::fnv1a(r.trace.join("\n").as_bytes());
        if let Ok(want) = std::env::var("XS_SIM_DUMP_TRACE") {
            if want == idx.to_string() {
                let _ = std::fs::write(format!("/tmp/trace-{}-{}-{}.txt", idx, stride, std::process::id()), r.trace.join("\n"));

            }
        }
        all_hashes.push((idx, h));
        if props::is_nontrivial(spec, &r.probes) {
            hashes.push(h);
            if samples.len() < 2 && r.violation.is_none() && r.trace.len() < 80 {
                samples.push(json!({"index": idx, "seed": run_seed, "trace": r.trace}));
            }
        }
        for (k, v) in &r.probes {
            *probes.entry(k.clone()).or_insert(0) += v;
        }
        if let Some(h) = &r.harness {
            harness.push(json!({"index": idx, "seed": run_seed, "text": h}));
            break;
        }
        if let Some(v) = &r.violation {
            let c = per_class.entry(v.class.clone()).or_insert(0);
            *c += 1;
            if *c <= 3 {
                let mut plan = plan.clone();
                if !r.choices.is_empty() {
                    plan["choices"] = json!(r.choices);
                }
                if let Some(Value::Object(m)) = &r.plan_patch {
                    for (k, v) in m {
                        plan[k.as_str()] = v.clone();
                    }
                }
                violations.push(json!({"index": idx, "seed": run_seed, "class": v.class, "text": v.text, "plan": plan}));
            }
        }
    }
    let out = json!({
        "runs": runs,
        "probes": probes,
        "nontrivial_hashes": hashes,
        "all_hashes": if std::env::var("XS_SIM_ALL_HASHES").is_ok() { json!(all_hashes) } else { json!([]) },
        "decisions": decisions,
        "sim_ms": sim_ms,
        "violations": violations,
        "violations_per_class": per_class,
        "harness": harness,
        "samples": samples,
        "cut_short": cut_short,
        "wall_s": t0.elapsed().as_secs_f64(),
    });
    println!("{}", out);
}
