//! The controller installed behind xs's `verif` hooks: parks OS-thread actors and async
//! tasks at sync points, owns the simulated clock, the id source and the knobs.
//! Exactly one actor runs between two scheduler decisions.

use std::cell::Cell;
use std::collections::{BTreeMap, HashMap, HashSet};
use std::future::Future;
use std::pin::Pin;
use std::sync::{Arc, Condvar, Mutex, MutexGuard, OnceLock};
use std::task::{Context, Poll, Waker};
use std::time::Duration;

use scru128::Scru128Id;

use crate::rng::Rng;

pub const EPOCH_MS: u64 = 1_700_000_000_000;

struct GuardPtr(*const (dyn Fn() -> bool + Sync));
unsafe impl Send for GuardPtr {}

enum AState {
    Running,
    Parked {
        site: &'static str,
        detail: u128,
        guard: Option<GuardPtr>,
        /// poll point: enabled only once the global activity counter has moved past this value
        poll_seen: Option<u64>,
    },
    /// inside an operation that blocks for real (a send into a full channel) until the
    /// scheduler's next action on `detail` wakes it; `woken`: the scheduler has already
    /// accounted for the wake-up (the actor counts as running again)
    Blocked {
        site: &'static str,
        detail: u128,
        woken: bool,
        /// the scheduler has given the thread time to show that it did not block after all
        settled: bool,
    },
    Done,
}

struct Actor {
    kind: &'static str,
    /// index among actors of the same kind in this run (stable label)
    kidx: usize,
    state: AState,
    cv: Arc<Condvar>,
    release: bool,
    epoch: u64,
}

struct AParked {
    id: u64,
    task: usize,
    site: &'static str,
    detail: u128,
    released: bool,
    waker: Option<Waker>,
    epoch: u64,
}

struct IdRng(Rng);
impl scru128::generator::Scru128Rng for IdRng {
    fn next_u32(&mut self) -> u32 {
        self.0.next_u32()
    }
}

struct Inner {
    active: bool,
    epoch: u64,
    actors: Vec<Actor>,
    kind_count: HashMap<&'static str, usize>,
    pending: usize,
    running: usize,
    aparked: Vec<AParked>,
    next_aid: u64,
    pass_sites: HashSet<&'static str>,
    now_ms: u64,
    idgen: scru128::Scru128Generator<IdRng>,
    knobs: HashMap<&'static str, usize>,
    site_hits: BTreeMap<&'static str, u64>,
    events: Vec<(&'static str, u128)>,
    seqs: HashMap<&'static str, u64>,
    task_ids: Vec<String>,
    task_hits: HashMap<(usize, &'static str), u64>,
    note_cb: Option<Arc<dyn Fn(&'static str, &str) + Send + Sync>>,
    activity: u64,
    unexpected_wakes: u64,
}

pub struct SimCtrl {
    m: Mutex<Inner>,
    sched_cv: Condvar,
}

thread_local! {
    pub static DEBUG_LOG: std::cell::RefCell<Vec<String>> = const { std::cell::RefCell::new(Vec::new()) };
}

thread_local! {
    static ACTOR: Cell<Option<(usize, u64)>> = const { Cell::new(None) };
}

#[derive(Clone, Debug, PartialEq)]
pub struct Enabled {
    pub kind: EnabledKind,
    pub label: String,
    pub site: &'static str,
    pub detail: u128,
    pub actor_kind: &'static str,
}

#[derive(Clone, Copy, Debug, PartialEq)]
pub enum EnabledKind {
    Os(usize),
    Async(u64),
}

static GLOBAL: OnceLock<Arc<SimCtrl>> = OnceLock::new();

pub fn global() -> Arc<SimCtrl> {
    GLOBAL
        .get_or_init(|| {
            let c = Arc::new(SimCtrl::new());
            xs::verif::install(c.clone());
            c
        })
        .clone()
}

impl SimCtrl {
    fn new() -> Self {
        SimCtrl {
            m: Mutex::new(Inner {
                active: false,
                epoch: 0,
                actors: Vec::new(),
                kind_count: HashMap::new(),
                pending: 0,
                running: 0,
                aparked: Vec::new(),
                next_aid: 0,
                pass_sites: HashSet::new(),
                now_ms: EPOCH_MS,
                idgen: scru128::Scru128Generator::with_rng(IdRng(Rng::new(0))),
                knobs: HashMap::new(),
                site_hits: BTreeMap::new(),
                events: Vec::new(),
                seqs: HashMap::new(),
                task_ids: Vec::new(),
                task_hits: HashMap::new(),
                note_cb: None,
                activity: 0,
                unexpected_wakes: 0,
            }),
            sched_cv: Condvar::new(),
        }
    }

    fn lock(&self) -> MutexGuard<'_, Inner> {
        self.m.lock().unwrap_or_else(|e| e.into_inner())
    }

    /// Start a simulated run: everything parked from earlier runs is stale.
    pub fn begin_run(&self, id_seed: u64, knobs: &[(&'static str, usize)], pass_sites: &[&'static str]) {
        let mut g = self.lock();
        g.epoch += 1;
        g.active = true;
        g.pending = 0;
        g.running = 0;
        g.kind_count.clear();
        g.pass_sites = pass_sites.iter().copied().collect();
        g.now_ms = EPOCH_MS;
        g.idgen = scru128::Scru128Generator::with_rng(IdRng(Rng::new(id_seed)));
        g.knobs = knobs.iter().copied().collect();
        g.site_hits.clear();
        g.events.clear();
        g.seqs.clear();
        g.task_ids.clear();
        g.task_hits.clear();
        g.note_cb = None;
        g.activity = 0;
        // drop finished / stale actors to keep the table small
        let epoch = g.epoch;
        for a in g.actors.iter_mut() {
            if a.epoch != epoch {
                if let AState::Parked { .. } = a.state {
                    // a stale parked actor: let it run free (passthrough for stale epochs)
                    a.release = true;
                    a.cv.notify_all();
                }
            }
        }
        g.aparked.retain(|p| {
            if p.epoch != epoch {
                if let Some(w) = &p.waker {
                    w.wake_by_ref();
                }
            }
            p.epoch == epoch
        });
    }

    /// End the run: all hooks become pass-through and every parked actor runs free.
    pub fn end_run(&self) {
        let mut g = self.lock();
        g.active = false;
        for a in g.actors.iter_mut() {
            if let AState::Parked { .. } = a.state {
                a.release = true;
                a.cv.notify_all();
            }
        }
        for p in g.aparked.iter_mut() {
            p.released = true;
            if let Some(w) = p.waker.take() {
                w.wake();
            }
        }
        g.aparked.clear();
        g.pending = 0;
        g.running = 0;
        g.note_cb = None;
    }

    pub fn set_pass_sites(&self, pass_sites: &[&'static str]) {
        self.lock().pass_sites = pass_sites.iter().copied().collect();
    }

    pub fn set_knob(&self, name: &'static str, v: usize) {
        self.lock().knobs.insert(name, v);
    }

    /// Parked actors that live on tokio's blocking pool (command calls).
    pub fn blocking_parked(&self) -> usize {
        let g = self.lock();
        g.actors
            .iter()
            .filter(|a| a.epoch == g.epoch && a.kind == "cmd")
            .filter(|a| matches!(a.state, AState::Parked { .. }))
            .count()
    }

    /// Callback run synchronously on the thread that reaches a `verif::note` site.
    pub fn set_note_cb(&self, cb: Option<Arc<dyn Fn(&'static str, &str) + Send + Sync>>) {
        self.lock().note_cb = cb;
    }

    pub fn set_now(&self, ms: u64) {
        self.lock().now_ms = ms;
    }

    pub fn now(&self) -> u64 {
        self.lock().now_ms
    }

    pub fn advance(&self, d: u64) -> u64 {
        let mut g = self.lock();
        g.now_ms += d;
        g.now_ms
    }

    pub fn gen_id(&self) -> Scru128Id {
        let mut g = self.lock();
        let now = g.now_ms;
        g.idgen.generate_or_reset_core(now, 10_000)
    }

    pub fn site_hits(&self) -> BTreeMap<&'static str, u64> {
        self.lock().site_hits.clone()
    }

    pub fn take_events(&self) -> Vec<(&'static str, u128)> {
        std::mem::take(&mut self.lock().events)
    }

    /// Block until no actor is running and no expected thread is outstanding.
    pub fn wait_quiescent(&self) -> Result<(), String> {
        let mut g = self.lock();
        let mut waited = 0u32;
        loop {
            if g.pending == 0 && g.running == 0 {
                // an actor that has just announced a blocking operation gets a moment to show
                // that the operation did not block after all (changed code: a send that gives
                // up on a full buffer); the unchanged code always blocks, so this wait never
                // decides anything there
                let epoch = g.epoch;
                let fresh = g.actors.iter().any(|a| a.epoch == epoch && matches!(a.state, AState::Blocked { woken: false, settled: false, .. }));
                if !fresh {
                    break;
                }
                let (ng, _) = self.sched_cv.wait_timeout(g, Duration::from_millis(3)).unwrap_or_else(|e| e.into_inner());
                g = ng;
                if g.pending == 0 && g.running == 0 {
                    for a in g.actors.iter_mut() {
                        if a.epoch == epoch {
                            if let AState::Blocked { woken: false, settled, .. } = &mut a.state {
                                *settled = true;
                            }
                        }
                    }
                }
                continue;
            }
            let (ng, to) = self
                .sched_cv
                .wait_timeout(g, Duration::from_millis(500))
                .unwrap_or_else(|e| e.into_inner());
            g = ng;
            if to.timed_out() {
                waited += 1;
                if waited >= 60 {
                    let desc = Self::describe(&g);
                    return Err(format!(
                        "quiescence timeout: pending={} running={} actors=[{}]",
                        g.pending, g.running, desc
                    ));
                }
            }
        }
        Ok(())
    }

    fn describe(g: &Inner) -> String {
        g.actors
            .iter()
            .filter(|a| a.epoch == g.epoch)
            .map(|a| {
                let st = match &a.state {
                    AState::Running => "running".to_string(),
                    AState::Parked { site, .. } => format!("parked@{}", site),
                    AState::Blocked { site, woken, .. } => format!("blocked@{}{}", site, if *woken { "(woken)" } else { "" }),
                    AState::Done => "done".to_string(),
                };
                format!("{}#{}:{}", a.kind, a.kidx, st)
            })
            .collect::<Vec<_>>()
            .join(", ")
    }

    pub fn describe_actors(&self) -> String {
        Self::describe(&self.lock())
    }

    /// All actors that could be released now, in a deterministic order
    /// (OS actors in registration order, then async points in registration order).
    pub fn enabled(&self) -> Vec<Enabled> {
        let g = self.lock();
        let mut out = Vec::new();
        for (i, a) in g.actors.iter().enumerate() {
            if a.epoch != g.epoch {
                continue;
            }
            if let AState::Parked { site, detail, guard, poll_seen } = &a.state {
                let ok = match (guard, poll_seen) {
                    (_, Some(seen)) => g.activity > *seen,
                    (None, None) => true,
                    (Some(p), None) => unsafe { (*p.0)() },
                };
                if ok {
                    out.push(Enabled {
                        kind: EnabledKind::Os(i),
                        label: format!("{}#{}@{}", a.kind, a.kidx, site),
                        site,
                        detail: *detail,
                        actor_kind: a.kind,
                    });
                }
            }
        }
        out.sort_by(|a, b| a.label.cmp(&b.label));
        for p in g.aparked.iter() {
            if p.epoch == g.epoch && !p.released {
                out.push(Enabled {
                    kind: EnabledKind::Async(p.id),
                    label: format!("task#{}@{}", p.task, p.site),
                    site: p.site,
                    detail: p.detail,
                    actor_kind: "task",
                });
            }
        }
        out
    }

    /// Every parked OS actor of the current run: (kind, site, detail), enabled or not.
    pub fn parked(&self) -> Vec<(&'static str, &'static str, u128)> {
        self.parked_idx().into_iter().map(|(k, _, s, d)| (k, s, d)).collect()
    }

    /// (kind, index within kind, site, detail) of every parked OS actor; done actors are absent.
    pub fn parked_idx(&self) -> Vec<(&'static str, usize, &'static str, u128)> {
        let g = self.lock();
        g.actors
            .iter()
            .filter(|a| a.epoch == g.epoch)
            .filter_map(|a| match &a.state {
                AState::Parked { site, detail, .. } => Some((a.kind, a.kidx, *site, *detail)),
                _ => None,
            })
            .collect()
    }

    /// Number of actors of `kind` that have finished in this run.
    pub fn done_count(&self, kind: &str) -> usize {
        let g = self.lock();
        g.actors
            .iter()
            .filter(|a| a.epoch == g.epoch && a.kind == kind && matches!(a.state, AState::Done))
            .count()
    }

    /// How often tokio task `task` arrived at async point `site` in this run.
    pub fn task_hits(&self, task: usize, site: &'static str) -> u64 {
        self.lock().task_hits.get(&(task, site)).copied().unwrap_or(0)
    }

    /// Parked async points of the current run: (task index, site, detail).
    pub fn aparked(&self) -> Vec<(usize, &'static str, u128)> {
        let g = self.lock();
        g.aparked.iter().filter(|p| p.epoch == g.epoch).map(|p| (p.task, p.site, p.detail)).collect()
    }

    /// Parked-but-disabled OS actors (guard false) - for deadlock diagnostics.
    pub fn blocked_count(&self) -> usize {
        let g = self.lock();
        g.actors
            .iter()
            .filter(|a| a.epoch == g.epoch)
            .filter(|a| match &a.state {
                AState::Parked { guard: Some(p), poll_seen: None, .. } => !unsafe { (*p.0)() },
                _ => false,
            })
            .count()
    }

    /// The scheduler is about to do what wakes the actor blocked at (`site`, `detail`) - take a
    /// frame from the channel it is sending into, or close that channel: from now on the actor
    /// counts as running, so the next quiescence wait covers its way to its next sync point.
    pub fn wake_blocked(&self, site: &'static str, detail: u128) -> bool {
        let mut g = self.lock();
        let epoch = g.epoch;
        let mut hit = false;
        for a in g.actors.iter_mut() {
            if a.epoch != epoch {
                continue;
            }
            if let AState::Blocked { site: s, detail: d, woken, .. } = &mut a.state {
                if *s == site && *d == detail && !*woken {
                    *woken = true;
                    hit = true;
                    break;
                }
            }
        }
        if hit {
            g.running += 1;
        }
        hit
    }

    /// Actors currently blocked for real: (kind, index within kind, site, detail).
    pub fn blocked_actors(&self) -> Vec<(&'static str, usize, &'static str, u128)> {
        let g = self.lock();
        g.actors
            .iter()
            .filter(|a| a.epoch == g.epoch)
            .filter_map(|a| match &a.state {
                AState::Blocked { site, detail, woken: false, .. } => Some((a.kind, a.kidx, *site, *detail)),
                _ => None,
            })
            .collect()
    }

    /// Wake-ups of blocked actors that the scheduler had not announced (a determinism hazard).
    pub fn unexpected_wakes(&self) -> u64 {
        self.lock().unexpected_wakes
    }

    /// Release one OS actor and wait until it (and anything it spawned) has parked again.
    pub fn release_os(&self, idx: usize) -> Result<(), String> {
        {
            let mut g = self.lock();
            let a = &mut g.actors[idx];
            a.release = true;
            a.cv.notify_all();
            g.running += 1;
        }
        self.wait_quiescent()
    }

    /// Mark an async point released and wake its task; the caller then steps the runtime.
    pub fn release_async(&self, id: u64) {
        let mut g = self.lock();
        if let Some(p) = g.aparked.iter_mut().find(|p| p.id == id) {
            p.released = true;
            if let Some(w) = p.waker.take() {
                w.wake();
            }
        }
    }

    pub fn live_os_actors(&self) -> usize {
        let g = self.lock();
        g.actors
            .iter()
            .filter(|a| a.epoch == g.epoch && !matches!(a.state, AState::Done))
            .count()
    }
}

impl SimCtrl {
    fn park(&self, site: &'static str, detail: u128, guard: Option<xs::verif::Guard<'_>>, poll: bool) {
        let Some((idx, epoch)) = ACTOR.with(|a| a.get()) else {
            return;
        };
        let mut g = self.lock();
        if !g.active || g.epoch != epoch || g.pass_sites.contains(site) {
            return;
        }
        *g.site_hits.entry(site).or_insert(0) += 1;
        let gp = guard.map(|gd| {
            // lifetime erased: the guard is only evaluated while this thread is parked in here
            let p: *const (dyn Fn() -> bool + Sync + '_) = gd;
            GuardPtr(unsafe { std::mem::transmute::<_, *const (dyn Fn() -> bool + Sync + 'static)>(p) })
        });
        if !poll {
            g.activity += 1;
        }
        let seen = g.activity;
        let cv = {
            let a = &mut g.actors[idx];
            a.state = AState::Parked {
                site,
                detail,
                guard: gp,
                poll_seen: if poll { Some(seen) } else { None },
            };
            a.release = false;
            a.cv.clone()
        };
        g.running = g.running.saturating_sub(1);
        self.sched_cv.notify_all();
        loop {
            if g.actors[idx].release {
                break;
            }
            g = cv.wait(g).unwrap_or_else(|e| e.into_inner());
        }
        let a = &mut g.actors[idx];
        a.release = false;
        a.state = AState::Running;
    }

    /// Something happened that a polling actor may be waiting for.
    pub fn bump_activity(&self) {
        self.lock().activity += 1;
    }

    /// A restart inside one run: every actor and task registered so far becomes stale (it
    /// runs free, all hooks pass for it); clock, ids and knobs continue.
    pub fn new_generation(&self) {
        let mut g = self.lock();
        g.epoch += 1;
        g.pending = 0;
        g.running = 0;
        g.kind_count.clear();
        g.task_ids.clear();
        g.task_hits.clear();
        let epoch = g.epoch;
        for a in g.actors.iter_mut() {
            if a.epoch != epoch {
                if let AState::Parked { .. } = a.state {
                    a.release = true;
                    a.cv.notify_all();
                }
            }
        }
        g.aparked.retain(|p| {
            if p.epoch != epoch {
                if let Some(w) = &p.waker {
                    w.wake_by_ref();
                }
            }
            p.epoch == epoch
        });
    }
}

struct APointFuture {
    ctrl: Arc<SimCtrl>,
    id: Option<u64>,
    site: &'static str,
    detail: u128,
}

impl Future for APointFuture {
    type Output = ();
    fn poll(mut self: Pin<&mut Self>, cx: &mut Context<'_>) -> Poll<()> {
        let ctrl = self.ctrl.clone();
        let mut g = ctrl.lock();
        if !g.active || g.pass_sites.contains(self.site) {
            if let Some(id) = self.id.take() {
                g.aparked.retain(|p| p.id != id);
            }
            return Poll::Ready(());
        }
        match self.id {
            None => {
                let id = g.next_aid;
                g.next_aid += 1;
                let epoch = g.epoch;
                *g.site_hits.entry(self.site).or_insert(0) += 1;
                // stable per-run identity of the tokio task: order of first appearance
                let tid = tokio::task::try_id().map(|t| t.to_string()).unwrap_or_else(|| "?".into());
                let task = match g.task_ids.iter().position(|t| *t == tid) {
                    Some(i) => i,
                    None => {
                        g.task_ids.push(tid);
                        g.task_ids.len() - 1
                    }
                };
                *g.task_hits.entry((task, self.site)).or_insert(0) += 1;
                g.activity += 1;
                g.aparked.push(AParked {
                    id,
                    task,
                    site: self.site,
                    detail: self.detail,
                    released: false,
                    waker: Some(cx.waker().clone()),
                    epoch,
                });
                self.id = Some(id);
                Poll::Pending
            }
            Some(id) => {
                let pos = g.aparked.iter().position(|p| p.id == id);
                match pos {
                    None => {
                        self.id = None;
                        Poll::Ready(())
                    }
                    Some(pos) => {
                        if g.aparked[pos].released {
                            g.aparked.remove(pos);
                            self.id = None;
                            Poll::Ready(())
                        } else {
                            g.aparked[pos].waker = Some(cx.waker().clone());
                            Poll::Pending
                        }
                    }
                }
            }
        }
    }
}

impl Drop for APointFuture {
    fn drop(&mut self) {
        if let Some(id) = self.id.take() {
            let mut g = self.ctrl.lock();
            g.aparked.retain(|p| p.id != id);
        }
    }
}

/// A thread that was an actor of an earlier run (or of an earlier incarnation inside this run)
/// and is still running free: none of its hook calls may touch the current run's state.
fn stale_caller(g: &Inner) -> bool {
    match ACTOR.with(|a| a.get()) {
        Some((_, epoch)) => epoch != g.epoch,
        None => false,
    }
}

impl xs::verif::Controller for SimCtrl {
    fn point(&self, site: &'static str, detail: u128, guard: Option<xs::verif::Guard<'_>>) {
        self.park(site, detail, guard, false);
    }

    fn poll_point(&self, site: &'static str) {
        self.park(site, 0, None, true);
    }

    fn block_enter(&self, site: &'static str, detail: u128) {
        let Some((idx, epoch)) = ACTOR.with(|a| a.get()) else {
            return;
        };
        let mut g = self.lock();
        if !g.active || g.epoch != epoch {
            return;
        }
        *g.site_hits.entry(site).or_insert(0) += 1;
        g.activity += 1;
        g.actors[idx].state = AState::Blocked { site, detail, woken: false, settled: false };
        g.running = g.running.saturating_sub(1);
        self.sched_cv.notify_all();
    }

    fn block_exit(&self) {
        let Some((idx, epoch)) = ACTOR.with(|a| a.get()) else {
            return;
        };
        let mut g = self.lock();
        if !g.active || g.epoch != epoch {
            return;
        }
        if let AState::Blocked { woken, .. } = g.actors[idx].state {
            if !woken {
                // the operation returned although nothing the scheduler did made room: it did
                // not block (or gave up); the actor simply counts as running again
                g.unexpected_wakes += 1;
                g.running += 1;
            }
            g.actors[idx].state = AState::Running;
            self.sched_cv.notify_all();
        }
    }

    fn active(&self) -> bool {
        // only for threads that are actors of the current run
        let Some((_, epoch)) = ACTOR.with(|a| a.get()) else {
            return false;
        };
        let g = self.lock();
        g.active && g.epoch == epoch
    }

    fn apoint(&self, site: &'static str, detail: u128) -> Pin<Box<dyn Future<Output = ()> + Send>> {
        Box::pin(APointFuture {
            ctrl: global(),
            id: None,
            site,
            detail,
        })
    }

    fn expect_thread(&self, kind: &'static str) -> u64 {
        let mut g = self.lock();
        if !g.active || stale_caller(&g) {
            return u64::MAX;
        }
        g.pending += 1;
        // identity = spawn order within the kind; the epoch rides along so that a thread
        // spawned by a stale incarnation is not mistaken for one of the current run
        let c = g.kind_count.entry(kind).or_insert(0);
        let k = *c as u64;
        *c += 1;
        (g.epoch << 32) | k
    }

    fn thread_begin(&self, kind: &'static str, ticket: u64) {
        let mut g = self.lock();
        if !g.active || ticket == u64::MAX || (ticket >> 32) != g.epoch {
            return;
        }
        let epoch = g.epoch;
        let kidx = (ticket & 0xffff_ffff) as usize;
        // recycle Done slots of stale epochs
        g.actors.push(Actor {
            kind,
            kidx,
            state: AState::Running,
            cv: Arc::new(Condvar::new()),
            release: false,
            epoch,
        });
        let idx = g.actors.len() - 1;
        ACTOR.with(|a| a.set(Some((idx, epoch))));
        g.pending = g.pending.saturating_sub(1);
        g.running += 1;
        self.sched_cv.notify_all();
    }

    fn thread_end(&self) {
        let Some((idx, epoch)) = ACTOR.with(|a| a.take()) else {
            return;
        };
        let mut g = self.lock();
        if idx < g.actors.len() {
            g.actors[idx].state = AState::Done;
        }
        if g.active && g.epoch == epoch {
            g.activity += 1;
            g.running = g.running.saturating_sub(1);
            self.sched_cv.notify_all();
        }
    }

    fn event(&self, site: &'static str, detail: u128) {
        let mut g = self.lock();
        if g.active && !stale_caller(&g) {
            g.events.push((site, detail));
        }
    }

    fn now_ms(&self) -> Option<u64> {
        let g = self.lock();
        if g.active && !stale_caller(&g) {
            Some(g.now_ms)
        } else {
            None
        }
    }

    fn new_id(&self) -> Option<Scru128Id> {
        let mut g = self.lock();
        if g.active && !stale_caller(&g) && g.knobs.get("ids.real").copied().unwrap_or(0) == 0 {
            let now = g.now_ms;
            Some(g.idgen.generate_or_reset_core(now, 10_000))
        } else {
            None
        }
    }

    fn seq(&self, name: &'static str) -> u64 {
        let mut g = self.lock();
        if !g.active || stale_caller(&g) {
            return 0;
        }
        let c = g.seqs.entry(name).or_insert(0);
        *c += 1;
        let v = *c;

        v
    }

    fn note(&self, site: &'static str, text: &str) {
        let cb = {
            let g = self.lock();
            if !g.active || stale_caller(&g) {
                return;
            }
            g.note_cb.clone()
        };
        if let Some(cb) = cb {
            cb(site, text);
        }
    }

    fn knob(&self, name: &'static str, default: usize) -> usize {
        let g = self.lock();
        if g.active && !stale_caller(&g) {
            g.knobs.get(name).copied().unwrap_or(default)
        } else {
            default
        }
    }
}
