//! E3: model-diff over generated histories. Operations run against the real Store (fjall,
//! gc worker as a scheduled actor, history thread, tokio channels) and against the model.

use std::collections::{BTreeMap, HashMap, HashSet};
use std::time::Duration;

use scru128::Scru128Id;
use serde::{Deserialize, Serialize};
use xs::store::{FollowOption, Frame, ReadOptions, Store, TTL, ZERO_CONTEXT};

use crate::ctrl::EPOCH_MS;
use crate::model::{fmt_frame, short_ctx, How, Model, Tri};
use crate::rng::Rng;
use crate::world::{harness, violation, Chooser, Picked, Policy, Stop, World, R};

pub const TOPICS: &[&str] = &[
    "a", "ab", "abc", "a.b", "", "ab\u{1}", "a\u{1}", "a\u{1}b", "a\u{10FFFF}", "\u{e9}", "\u{e9}\u{1}", "t", "xs.pulse",
    "abcdefghijklmnopqrstuvwxyz0123456789-long-topic-name",
];
pub const NUL_TOPICS: &[&str] = &["a\0b", "\0", "a\0", "\0a"];

#[derive(Serialize, Deserialize, Clone, Debug, PartialEq)]
pub enum CtxRef {
    Zero,
    /// k-th context ever registered (mod count); Zero if none
    Reg(usize),
    /// a context id that was never registered
    Unreg(usize),
    /// the id right after the k-th registered context (numerically adjacent)
    Adj(usize),
}

#[derive(Serialize, Deserialize, Clone, Debug, PartialEq)]
pub enum IdRef {
    /// k-th id ever issued (stored, removed, ephemeral), mod count
    Nth(usize),
    Fresh(u64),
    BelowAll,
    AboveAll,
    /// just after the k-th issued id (an id between two frames)
    After(usize),
}

#[derive(Serialize, Deserialize, Clone, Debug, PartialEq)]
pub enum TtlSpec {
    None,
    Forever,
    Ephemeral,
    Time(u64),
    Head(u32),
}

impl TtlSpec {
    pub fn to_ttl(&self) -> Option<TTL> {
        match self {
            TtlSpec::None => None,
            TtlSpec::Forever => Some(TTL::Forever),
            TtlSpec::Ephemeral => Some(TTL::Ephemeral),
            TtlSpec::Time(ms) => Some(TTL::Time(Duration::from_millis(*ms))),
            TtlSpec::Head(n) => Some(TTL::Head(*n)),
        }
    }
}

#[derive(Serialize, Deserialize, Clone, Debug, PartialEq)]
pub enum Op {
    Append { topic: String, ctx: CtxRef, ttl: TtlSpec, meta: usize, hash: usize },
    Register { ctx: CtxRef, ttl: TtlSpec },
    Import { topic: String, ctx: CtxRef, ttl: TtlSpec, meta: usize, hash: usize, ts_off: i64, salt: u64 },
    ImportReg { ts_off: i64, salt: u64, adjacent_to: Option<usize> },
    ReImport { id: IdRef },
    /// import an id that is (or was) in the store again, under another topic and / or context
    ReImportAs { id: IdRef, topic: String, ctx: CtxRef },
    Remove { id: IdRef },
    Tick { ms: u64 },
    /// move the clock to the expiry edge of the k-th time:N frame, plus delta ms (never backwards)
    TickToEdge { k: usize, delta: i64 },
    ClockBack { ms: u64 },
    /// flush, then merge all segments of every partition (shadowed versions and tombstones go)
    Compact,
    GcStep,
    GcDrain,
    Flush,
    Reopen { crash: bool },
    ReadSync { ctx: Option<CtxRef>, last: Option<IdRef>, limit: Option<usize> },
    ReadAsync { ctx: Option<CtxRef>, last: Option<IdRef>, limit: Option<usize>, cap: usize, sched: u64, chaos: u32 },
    /// read_sync consumed lazily: take `first` items, advance the clock, take the rest
    ReadSyncLazy { ctx: Option<CtxRef>, last: Option<IdRef>, limit: Option<usize>, first: usize, edge: usize },
    Get { id: IdRef },
    Head { topic: String, ctx: CtxRef },
    Settle,
    /// enough ~1 MiB frames to overflow the 16 MiB memtable: fjall rotates it and its flush
    /// worker writes a segment in the background (thorough tier only)
    Bulk { topic: String, ctx: CtxRef, n: usize },
}

#[derive(Serialize, Deserialize, Clone, Debug)]
pub struct Plan {
    pub prop: String,
    pub seed: u64,
    pub follower: bool,
    pub ops: Vec<Op>,
}

pub fn meta_pool(i: usize) -> Option<serde_json::Value> {
    use serde_json::json;
    match i {
        0 => None,
        1 => Some(json!({"a": 1})),
        2 => Some(json!({"nested": {"x": [1, 2, {"y": null}], "s": "\u{e9}\u{1F600}\\\"\n"}})),
        3 => Some(json!({"big": 18446744073709551615u64, "neg": -9223372036854775808i64, "f": 1.5e300})),
        4 => Some(json!(null)),
        5 => Some(json!("just a string")),
        6 => Some(json!([1, "two", 3.0])),
        7 => Some(json!({"pad": "x".repeat(9000)})),
        8 => Some(json!({"pad": "y".repeat(70_000)})),
        9 => Some(json!({"pad": "z".repeat(1_100_000)})),
        _ => Some(json!({"k": i})),
    }
}

pub fn hash_pool(i: usize) -> Option<ssri::Integrity> {
    match i {
        0 => None,
        _ => Some(ssri::Integrity::from(format!("content-{}", i % 5).as_bytes())),
    }
}

/// Generation parameters, one set per property (swarm-style: each run further randomises).
#[derive(Clone, Debug)]
pub struct GenCfg {
    pub prop: String,
    pub min_ops: usize,
    pub max_ops: usize,
    pub w_append: u32,
    pub w_register: u32,
    pub w_import: u32,
    pub w_import_reg: u32,
    pub w_reimport: u32,
    pub w_remove: u32,
    pub w_tick: u32,
    pub w_edge: u32,
    pub w_back: u32,
    pub w_gcstep: u32,
    pub w_gcdrain: u32,
    pub w_flush: u32,
    pub w_reopen: u32,
    pub w_readsync: u32,
    pub w_readasync: u32,
    pub w_readlazy: u32,
    pub w_get: u32,
    pub w_head: u32,
    pub w_settle: u32,
    pub ttl_heavy: bool,
    pub nul_topics: bool,
    pub big_meta_max: usize,
    pub bad_ctx: u32,
    pub follower: bool,
    pub import_ttl_topics: bool,
}

impl GenCfg {
    pub fn for_prop(prop: &str, thorough: bool) -> GenCfg {
        let mut c = GenCfg {
            prop: prop.to_string(),
            min_ops: 5,
            max_ops: 45,
            w_append: 30,
            w_register: 3,
            w_import: 6,
            w_import_reg: 1,
            w_reimport: 2,
            w_remove: 7,
            w_tick: 4,
            w_edge: 3,
            w_back: 1,
            w_gcstep: 4,
            w_gcdrain: 3,
            w_flush: 1,
            w_reopen: 2,
            w_readsync: 12,
            w_readasync: 5,
            w_readlazy: 2,
            w_get: 6,
            w_head: 6,
            w_settle: 4,
            ttl_heavy: false,
            nul_topics: true,
            big_meta_max: if thorough { 9 } else { 8 },
            bad_ctx: 6,
            follower: false,
            import_ttl_topics: true,
        };
        match prop {
            "C01" => {}
            "C05" => {
                c.w_head = 14;
                c.w_settle = 8;
                c.w_remove = 10;
                c.w_import = 8;
            }
            "C07" => {
                c.w_register = 10;
                c.w_import_reg = 5;
                c.w_reopen = 7;
                c.w_remove = 10;
                c.bad_ctx = 25;
                c.follower = true;
                c.w_readasync = 1;
                c.w_flush = 1;
            }
            "C08" => {
                c.ttl_heavy = true;
                c.w_edge = 8;
                c.w_tick = 5;
                c.w_gcstep = 10;
                c.w_settle = 5;
            }
            "C09" => {
                c.ttl_heavy = true;
                c.w_edge = 8;
                c.w_tick = 5;
                c.w_gcstep = 6;
                c.w_gcdrain = 6;
                c.w_settle = 8;
                c.w_import = 3;
                c.import_ttl_topics = false;
                c.follower = true;
                c.w_back = 0;
            }
            _ => {}
        }
        c
    }
}

fn gen_ctx(rng: &mut Rng, bad: u32) -> CtxRef {
    if rng.chance(bad) {
        if rng.chance(50) {
            CtxRef::Unreg(rng.below(3))
        } else {
            CtxRef::Adj(rng.below(3))
        }
    } else if rng.chance(40) {
        CtxRef::Zero
    } else {
        CtxRef::Reg(rng.below(4))
    }
}

fn gen_idref(rng: &mut Rng) -> IdRef {
    match rng.weighted(&[70, 6, 4, 4, 16]) {
        0 => IdRef::Nth(rng.below(64)),
        1 => IdRef::Fresh(rng.next_u64()),
        2 => IdRef::BelowAll,
        3 => IdRef::AboveAll,
        _ => IdRef::After(rng.below(64)),
    }
}

fn gen_ttl(rng: &mut Rng, heavy: bool) -> TtlSpec {
    let w: [u32; 5] = if heavy { [10, 10, 10, 35, 35] } else { [45, 15, 8, 16, 16] };
    match rng.weighted(&w) {
        0 => TtlSpec::None,
        1 => TtlSpec::Forever,
        2 => TtlSpec::Ephemeral,
        // (the last two: "practically forever" values at the edge of the millisecond arithmetic)
        3 => TtlSpec::Time(*rng.pick(&[1u64, 5, 50, 1000, 60_000, 1000, 50, 1u64 << 63, u64::MAX])),
        _ => TtlSpec::Head(*rng.pick(&[1u32, 1, 2, 3, 50])),
    }
}

fn gen_limit(rng: &mut Rng) -> Option<usize> {
    match rng.weighted(&[50, 8, 14, 14, 14]) {
        0 => None,
        1 => Some(0),
        2 => Some(1),
        3 => Some(2),
        _ => Some(rng.range(3, 12)),
    }
}

pub fn generate(seed: u64, cfg: &GenCfg) -> Plan {
    let mut rng = Rng::new(seed);
    // swarm: per-run topic subset and op-kind dropout
    let mut topics: Vec<&str> = TOPICS.to_vec();
    rng.shuffle(&mut topics);
    let ntop = rng.range(2, 6);
    topics.truncate(ntop);
    if rng.chance(60) {
        // force prefix-related topics into the pool
        for t in ["a", "ab", "a\u{1}"] {
            if !topics.contains(&t) {
                topics.push(t);
            }
        }
    }
    let mut w = vec![
        cfg.w_append,
        cfg.w_register,
        cfg.w_import,
        cfg.w_import_reg,
        cfg.w_reimport,
        cfg.w_remove,
        cfg.w_tick,
        cfg.w_edge,
        cfg.w_back,
        cfg.w_gcstep,
        cfg.w_gcdrain,
        cfg.w_flush,
        cfg.w_reopen,
        cfg.w_readsync,
        cfg.w_readasync,
        cfg.w_get,
        cfg.w_head,
        cfg.w_settle,
        cfg.w_readlazy,
    ];
    // drop a few optional op kinds for this run
    for i in [2usize, 3, 4, 6, 7, 8, 9, 10, 11, 12, 14] {
        if rng.chance(20) {
            w[i] = 0;
        }
    }
    let ttl_heavy = cfg.ttl_heavy || rng.chance(25);
    let n = rng.range(cfg.min_ops, cfg.max_ops);
    let mut ops = Vec::new();
    // most runs start with one or two registrations so that contexts exist
    let nreg = rng.weighted(&[15, 35, 35, 15]);
    for _ in 0..nreg {
        ops.push(Op::Register { ctx: CtxRef::Zero, ttl: TtlSpec::None });
    }
    let mut flushes = 0;
    let mut reopens = 0;
    let mut bigs = 0;
    for _ in 0..n {
        let k = rng.weighted(&w);
        let topic = |rng: &mut Rng| -> String {
            if cfg.nul_topics && rng.chance(3) {
                rng.pick(NUL_TOPICS).to_string()
            } else {
                rng.pick(&topics).to_string()
            }
        };
        let mut meta = |rng: &mut Rng| -> usize {
            let m = match rng.weighted(&[40, 50, 7, 3]) {
                0 => 0,
                1 => rng.range(1, 6),
                2 => 7,
                _ => rng.range(8, cfg.big_meta_max.max(8)),
            };
            if m >= 8 {
                bigs += 1;
                if bigs > 3 {
                    return 7;
                }
            }
            m
        };
        let op = match k {
            0 => Op::Append {
                topic: if cfg.prop == "C07" && rng.chance(12) {
                    rng.pick(&["xs.contexts", "xs.context.note", "xs.context\u{1}"]).to_string()
                } else if (cfg.prop == "C05" || cfg.prop == "C01") && rng.chance(1) {
                    "<long:65503>".to_string()
                } else {
                    topic(&mut rng)
                },
                ctx: gen_ctx(&mut rng, cfg.bad_ctx),
                ttl: gen_ttl(&mut rng, ttl_heavy),
                meta: meta(&mut rng),
                hash: rng.below(4),
            },
            1 => Op::Register {
                ctx: if rng.chance(12) { CtxRef::Reg(rng.below(3)) } else { CtxRef::Zero },
                ttl: gen_ttl(&mut rng, false),
            },
            2 => {
                let mut ttl = gen_ttl(&mut rng, ttl_heavy && cfg.import_ttl_topics);
                if ttl == TtlSpec::Ephemeral {
                    ttl = TtlSpec::Forever;
                }
                if !cfg.import_ttl_topics && matches!(ttl, TtlSpec::Head(_)) {
                    ttl = TtlSpec::None;
                }
                Op::Import {
                    topic: if cfg.prop == "C07" && rng.chance(15) {
                        "xs.context".to_string()
                    } else if cfg.import_ttl_topics {
                        topic(&mut rng)
                    } else {
                        "imp".to_string()
                    },
                    ctx: gen_ctx(&mut rng, 10),
                    ttl,
                    meta: meta(&mut rng),
                    hash: rng.below(4),
                    ts_off: *rng.pick(&[-100_000i64, -5000, -50, -1, 0, 0, 1, 50, 5000]),
                    salt: rng.next_u64(),
                }
            }
            3 => Op::ImportReg {
                ts_off: *rng.pick(&[-100_000i64, -50, 0, 50]),
                salt: rng.next_u64(),
                adjacent_to: if rng.chance(40) { Some(rng.below(3)) } else { None },
            },
            4 => {
                if (cfg.prop == "C05" || cfg.prop == "C01" || cfg.prop == "C06") && rng.chance(25) {
                    Op::ReImportAs { id: IdRef::Nth(rng.below(64)), topic: topic(&mut rng), ctx: gen_ctx(&mut rng, 0) }
                } else {
                    Op::ReImport { id: IdRef::Nth(rng.below(64)) }
                }
            }
            5 => Op::Remove { id: gen_idref(&mut rng) },
            6 => Op::Tick { ms: *rng.pick(&[1u64, 1, 2, 10, 49, 999, 5000, 70_000]) },
            7 => Op::TickToEdge { k: rng.below(8), delta: *rng.pick(&[-1i64, 0, 1]) },
            8 => Op::ClockBack { ms: *rng.pick(&[1u64, 3, 100, 4000]) },
            9 => Op::GcStep,
            10 => Op::GcDrain,
            11 => {
                flushes += 1;
                if flushes > 3 {
                    Op::GcStep
                } else if flushes == 2 || flushes == 3 {
                    // a second flushed segment, then a major compaction of every partition
                    Op::Compact
                } else {
                    Op::Flush
                }
            }
            12 => {
                reopens += 1;
                if reopens > 3 {
                    Op::GcStep
                } else {
                    Op::Reopen { crash: rng.chance(50) }
                }
            }
            13 => Op::ReadSync {
                ctx: if rng.chance(45) { None } else { Some(gen_ctx(&mut rng, 10)) },
                last: if rng.chance(50) { None } else { Some(gen_idref(&mut rng)) },
                limit: gen_limit(&mut rng),
            },
            14 => Op::ReadAsync {
                ctx: if rng.chance(45) { None } else { Some(gen_ctx(&mut rng, 10)) },
                last: if rng.chance(50) { None } else { Some(gen_idref(&mut rng)) },
                limit: gen_limit(&mut rng),
                cap: *rng.pick(&[1usize, 2, 3, 8, 100]),
                sched: rng.next_u64(),
                chaos: *rng.pick(&[0u32, 0, 10, 30]),
            },
            15 => Op::Get { id: gen_idref(&mut rng) },
            16 => Op::Head { topic: topic(&mut rng), ctx: gen_ctx(&mut rng, 10) },
            18 => Op::ReadSyncLazy {
                ctx: if rng.chance(45) { None } else { Some(gen_ctx(&mut rng, 10)) },
                last: if rng.chance(70) { None } else { Some(gen_idref(&mut rng)) },
                limit: gen_limit(&mut rng),
                first: rng.below(4),
                edge: rng.below(8),
            },
            _ => Op::Settle,
        };
        ops.push(op);
    }
    if cfg.big_meta_max >= 9 && rng.chance(2) {
        // thorough tier: bulk data somewhere in the middle of the history
        let at = rng.below(ops.len().max(1));
        ops.insert(at, Op::Bulk { topic: "bulk".to_string(), ctx: CtxRef::Zero, n: 17 });
    }
    ops.push(Op::Settle);
    Plan {
        prop: cfg.prop.clone(),
        seed,
        follower: cfg.follower,
        ops,
    }
}

pub struct Exec {
    pub w: World,
    pub store: Option<Store>,
    pub path: std::path::PathBuf,
    pub gen: u32,
    pub model: Model,
    pub reg: Vec<Scru128Id>,
    pub issued: Vec<Scru128Id>,
    pub time_frames: Vec<Scru128Id>,
    pub follower_rx: Option<tokio::sync::mpsc::Receiver<Frame>>,
    pub follower_expect: Vec<Frame>,
    pub flushed: bool,
    /// highest clock value the store has seen (ids are drawn from scru128's generator, which
    /// restarts below earlier ids once the clock is more than 10 s behind its last timestamp)
    pub clock_high: u64,
    /// C05 is about the lookups agreeing with one another: at a settle point the store-vs-store
    /// comparison is evaluated before any model verdict is returned
    pub agree_first: bool,
    /// ids of frames that look like registrations but are none (topic only starts with
    /// `xs.context`, or the frame is not in the zero context): never usable as a context
    pub suspects: Vec<Scru128Id>,
    settles: u32,
    deferred: Option<crate::world::Violation>,
    pub crashed_pairs: HashSet<(Scru128Id, String)>,
    pub plan_follower: bool,
    /// every accepted append in order (stored and ephemeral), for stream followers of other engines
    pub accepted_log: Vec<Frame>,
}

pub fn fresh_id(ts: u64, salt: u64) -> Scru128Id {
    let mut r = Rng::new(salt);
    Scru128Id::from_fields(ts & 0xFFFF_FFFF_FFFF, (r.next_u32() & 0xFF_FFFF), (r.next_u32() & 0xFF_FFFF), r.next_u32())
}

impl Exec {
    pub fn new(tag: &str, seed: u64, follower: bool) -> R<Exec> {
        let mut w = World::new(tag, seed ^ 0x1d, &[], &["read.subscribed", "live.start", "live.recv", "append.enter", "append.id", "append.committed", "append.sending", "append.broadcast", "remove.enter", "remove.committed"]);
        let path = w.dir.join("s0");
        std::fs::create_dir_all(&path).map_err(|e| Stop::Harness(e.to_string()))?;
        let store = w.open_store(&path)?;
        let mut e = Exec {
            w,
            store: Some(store),
            path,
            gen: 0,
            model: Model::new(EPOCH_MS),
            reg: Vec::new(),
            issued: Vec::new(),
            time_frames: Vec::new(),
            follower_rx: None,
            follower_expect: Vec::new(),
            flushed: false,
            clock_high: 0,
            agree_first: false,
            suspects: Vec::new(),
            settles: 0,
            deferred: None,
            crashed_pairs: HashSet::new(),
            plan_follower: follower,
            accepted_log: Vec::new(),
        };
        if follower {
            e.attach_follower()?;
        }
        Ok(e)
    }

    pub fn store(&self) -> &Store {
        self.store.as_ref().unwrap()
    }

    fn attach_follower(&mut self) -> R<()> {
        let store = self.store().clone();
        let (otx, orx) = std::sync::mpsc::channel();
        self.w.rt().spawn(async move {
            let rx = store
                .read(ReadOptions::builder().follow(FollowOption::On).tail(true).build())
                .await;
            let _ = otx.send(rx);
        });
        self.w.step_tokio()?;
        match orx.try_recv() {
            Ok(rx) => {
                self.follower_rx = Some(rx);
                Ok(())
            }
            Err(_) => harness("follower read did not return"),
        }
    }

    pub fn drain_follower(&mut self, what: &str) -> R<()> {
        if self.follower_rx.is_none() {
            return Ok(());
        }
        if self.w.tokio_runnable() {
            self.w.step_tokio()?;
        }
        let mut got = Vec::new();
        if let Some(rx) = self.follower_rx.as_mut() {
            while let Ok(f) = rx.try_recv() {
                got.push(f);
            }
        }
        let expect = std::mem::take(&mut self.follower_expect);
        if got != expect {
            let class = if got.len() > expect.len() || got.iter().any(|g| !expect.contains(g)) {
                "follow/unexpected"
            } else {
                "follow/missing"
            };
            return violation(
                class,
                format!(
                    "{}: a tail follower attached before the operation received [{}] but the accepted appends were [{}]",
                    what,
                    got.iter().map(fmt_frame).collect::<Vec<_>>().join(", "),
                    expect.iter().map(fmt_frame).collect::<Vec<_>>().join(", ")
                ),
            );
        }
        Ok(())
    }

    pub fn ctx(&self, c: &CtxRef) -> Scru128Id {
        match c {
            CtxRef::Zero => ZERO_CONTEXT,
            CtxRef::Reg(k) => {
                if self.reg.is_empty() {
                    ZERO_CONTEXT
                } else {
                    self.reg[k % self.reg.len()]
                }
            }
            CtxRef::Unreg(k) => fresh_id(EPOCH_MS - 500_000 + *k as u64, 0xC0FFEE + *k as u64),
            CtxRef::Adj(k) => {
                if self.reg.is_empty() {
                    fresh_id(EPOCH_MS - 400_000, 77)
                } else {
                    Scru128Id::from_u128(self.reg[k % self.reg.len()].to_u128().wrapping_add(1))
                }
            }
        }
    }

    pub fn idref(&self, r: &IdRef) -> Scru128Id {
        match r {
            IdRef::Nth(k) => {
                if self.issued.is_empty() {
                    fresh_id(EPOCH_MS - 300_000, 5)
                } else {
                    self.issued[k % self.issued.len()]
                }
            }
            IdRef::Fresh(s) => fresh_id(EPOCH_MS - 200_000 + (s % 400_000), *s),
            IdRef::BelowAll => Scru128Id::from_u128(1),
            IdRef::AboveAll => Scru128Id::from_u128(u128::MAX),
            IdRef::After(k) => {
                if self.issued.is_empty() {
                    fresh_id(EPOCH_MS - 300_000, 6)
                } else {
                    Scru128Id::from_u128(self.issued[k % self.issued.len()].to_u128().wrapping_add(1))
                }
            }
        }
    }

    pub fn issue(&mut self, id: Scru128Id) {
        if !self.issued.contains(&id) {
            self.issued.push(id);
        }
    }

    pub fn run_plan(&mut self, plan: &Plan) -> R<()> {
        for (i, op) in plan.ops.iter().enumerate() {
            self.w.log(format!("op{} {:?}", i, op));
            match self.apply(i, op) {
                Err(Stop::Violation(v)) if self.agree_first && self.deferred.is_none() && !v.class.starts_with("agree/") && !v.class.starts_with("head/") => {
                    // the model found a discrepancy; C05 asks whether the lookups still agree
                    // with one another, so compare them before giving up on the run
                    self.deferred = Some(v);
                    return self.settle(&format!("op{} (after a model discrepancy)", i));
                }
                r => r?,
            }
        }
        Ok(())
    }

    fn do_append(&mut self, what: &str, topic: &str, ctx: Scru128Id, ttl: Option<TTL>, meta: Option<serde_json::Value>, hash: Option<ssri::Integrity>) -> R<Option<Frame>> {
        let expected = self.model.expect_append(topic, &ctx);
        let frame = Frame::builder(topic.to_string(), ctx)
            .maybe_hash(hash.clone())
            .maybe_meta(meta.clone())
            .maybe_ttl(ttl.clone())
            .build();
        let res = self.store().append(frame);
        match res {
            Ok(f) => {
                if expected == Tri::Absent {
                    let (class, why) = if topic == "xs.context" {
                        ("append/accepted-regctx", "xs.context outside the zero context")
                    } else if self.model.usable(&ctx) == Tri::Absent {
                        ("append/accepted-unregistered", "unregistered context")
                    } else if topic.len() > 65535 - 33 {
                        ("append/accepted-oversize", "topic does not fit the index key")
                    } else {
                        ("append/accepted-nul", "NUL byte in topic")
                    };
                    return violation(
                        class,
                        format!("{}: append(topic {:?}, ctx {}) succeeded but must be rejected ({}); stored {}", what, topic, short_ctx(&ctx), why, fmt_frame(&f)),
                    );
                }
                let want_ttl = if topic == "xs.context" { Some(TTL::Forever) } else { ttl.clone() };
                if f.topic != topic || f.context_id != ctx || f.hash != hash || f.meta != meta || f.ttl != want_ttl {
                    return violation(
                        "append/fields",
                        format!("{}: append returned {} for input topic {:?} ctx {} ttl {:?}", what, fmt_frame(&f), topic, short_ctx(&ctx), want_ttl),
                    );
                }
                if let Some(last) = self.model.last_append_id {
                    if f.id <= last {
                        return violation(
                            "append/id-not-increasing",
                            format!("{}: append got id {} after an earlier append got {}", what, f.id, last),
                        );
                    }
                }
                self.note_accepted(&f);
                self.drain_follower(what)?;
                Ok(Some(f))
            }
            Err(e) => {
                if expected == Tri::Present {
                    return violation(
                        "append/rejected-valid",
                        format!("{}: append(topic {:?}, ctx {}) failed with {:?} but the context is usable and the topic valid", what, topic, short_ctx(&ctx), e.to_string()),
                    );
                }
                self.w.probe("append:rejected");
                // a rejected append leaves no trace
                self.drain_follower(what)?;
                let all: Vec<Frame> = self.store().read_sync(None, None, None).collect();
                self.model.check_read(&format!("{} (after rejected append)", what), None, None, None, &all, None)?;
                if !topic.as_bytes().contains(&0) {
                    let h = self.store().head(topic, ctx);
                    self.model.check_head(&format!("{} (after rejected append)", what), topic, &ctx, h.as_ref())?;
                }
                Ok(None)
            }
        }
    }

    /// Bookkeeping for an append the store accepted (through any entry point).
    pub fn note_accepted(&mut self, f: &Frame) {
        if f.topic == "xs.context" && f.context_id == ZERO_CONTEXT {
            self.reg.push(f.id);
            self.w.probe("ctx:registered");
        }
        if matches!(f.ttl, Some(TTL::Time(_))) {
            self.time_frames.push(f.id);
        }
        if f.topic.starts_with("xs.context") && !(f.topic == "xs.context" && f.context_id == ZERO_CONTEXT) && !self.suspects.contains(&f.id) {
            self.suspects.push(f.id);
            self.w.probe("ctx:lookalike-frame");
        }
        self.issue(f.id);
        self.model.accept_append(f);
        self.accepted_log.push(f.clone());
        self.follower_expect.push(f.clone());
        if self.flushed {
            self.w.probe("layout:append-after-flush");
        }
    }

    /// Bookkeeping for an import the store accepted.
    pub fn note_imported(&mut self, f: &Frame) {
        // a registration frame is kept forever whatever TTL the imported frame asked for
        let forced;
        let f = if f.topic == "xs.context" && f.context_id == ZERO_CONTEXT && f.ttl.is_some() && f.ttl != Some(TTL::Forever) {
            self.w.probe("import:registration-ttl-forced");
            forced = Frame { ttl: Some(TTL::Forever), ..f.clone() };
            &forced
        } else {
            f
        };
        if f.context_id == ZERO_CONTEXT && f.topic == "xs.context" && !self.reg.contains(&f.id) {
            self.reg.push(f.id);
            self.w.probe("ctx:imported-registration");
        }
        if matches!(f.ttl, Some(TTL::Time(_))) && !self.time_frames.contains(&f.id) {
            self.time_frames.push(f.id);
        }
        if f.topic.starts_with("xs.context") && !(f.topic == "xs.context" && f.context_id == ZERO_CONTEXT) && !self.suspects.contains(&f.id) {
            self.suspects.push(f.id);
            self.w.probe("ctx:lookalike-frame");
        }
        self.issue(f.id);
        self.model.accept_import(f);
        self.w.probe("import:ok");
    }

    fn do_import(&mut self, what: &str, f: Frame) -> R<()> {
        let has_nul = f.topic.as_bytes().contains(&0);
        let res = self.store().insert_frame(&f);
        match res {
            Ok(()) => {
                if has_nul {
                    return violation(
                        "import/accepted-invalid",
                        format!("{}: import of a frame with a NUL topic succeeded: {}", what, fmt_frame(&f)),
                    );
                }
                self.note_imported(&f);
                self.drain_follower(what)?;
                if f.topic == "xs.context" && f.context_id != ZERO_CONTEXT {
                    // only a registration frame in the zero context makes its id a context
                    self.w.probe("import:regtopic-in-nonzero-ctx");
                    self.do_append(&format!("{} (probe: append into the context named by that frame's id)", what), "probe", f.id, None, None, None)?;
                }
                Ok(())
            }
            Err(e) => {
                if !has_nul {
                    return violation(
                        "import/rejected-valid",
                        format!("{}: import of {} failed: {}", what, fmt_frame(&f), e),
                    );
                }
                self.w.probe("import:rejected");
                let all: Vec<Frame> = self.store().read_sync(None, None, None).collect();
                self.model.check_read(&format!("{} (after rejected import)", what), None, None, None, &all, None)?;
                Ok(())
            }
        }
    }

    fn gc_step(&mut self) -> R<bool> {
        self.w.wait()?;
        let en: Vec<_> = self.w.ctrl.enabled().into_iter().filter(|e| e.actor_kind == "gc").collect();
        if let Some(e) = en.first() {
            if let crate::ctrl::EnabledKind::Os(i) = e.kind {
                self.w.ctrl.release_os(i).map_err(Stop::Harness)?;
                self.model.gc_progress();
                self.w.probe("gc:step");
                return Ok(true);
            }
        }
        Ok(false)
    }

    pub fn gc_drain(&mut self) -> R<()> {
        let n = self.w.run_kind_until_idle("gc", 100_000)?;
        if n > 0 {
            self.w.probe("gc:drain-nonempty");
        }
        self.model.gc_drained();
        Ok(())
    }

    fn set_clock(&mut self, now: u64) -> R<()> {
        let cur = self.w.ctrl.now();
        if now >= cur {
            self.w.tick(now - cur)?;
        } else {
            self.w.ctrl.set_now(now);
        }
        self.clock_high = self.clock_high.max(now).max(cur);
        self.model.set_now(now);
        Ok(())
    }

    pub fn apply(&mut self, i: usize, op: &Op) -> R<()> {
        let what = format!("op{} {}", i, op_short(op));
        match op {
            Op::Append { topic, ctx, ttl, meta, hash } => {
                let c = self.ctx(ctx);
                // "<long:N>": a topic of N bytes (the index key holds at most 65502 of them)
                let expanded;
                let topic: &str = match topic.strip_prefix("<long:").and_then(|t| t.strip_suffix('>')).and_then(|n| n.parse::<usize>().ok()) {
                    Some(n) => {
                        expanded = "t".repeat(n);
                        self.w.probe("append:oversize-topic");
                        &expanded
                    }
                    None => topic,
                };
                self.do_append(&what, topic, c, ttl.to_ttl(), meta_pool(*meta), hash_pool(*hash))?;
            }
            Op::Register { ctx, ttl } => {
                let c = self.ctx(ctx);
                let f = self.do_append(&what, "xs.context", c, ttl.to_ttl(), None, None)?;
                if let Some(f) = f {
                    let got = self.store().get(&f.id);
                    if got.as_ref().map(|g| g.ttl.clone()) != Some(Some(TTL::Forever)) {
                        return violation(
                            "ctx/registration-ttl",
                            format!("{}: registration frame reads back as {:?}, not ttl forever", what, got.as_ref().map(fmt_frame)),
                        );
                    }
                }
            }
            Op::Import { topic, ctx, ttl, meta, hash, ts_off, salt } => {
                let c = self.ctx(ctx);
                let ts = (self.model.now as i64 + ts_off).max(1) as u64;
                let mut id = fresh_id(ts, *salt);
                while self.model.frames.contains_key(&id) || self.issued.contains(&id) {
                    id = Scru128Id::from_u128(id.to_u128() + 1);
                }
                let f = Frame::builder(topic.clone(), c)
                    .id(id)
                    .maybe_hash(hash_pool(*hash))
                    .maybe_meta(meta_pool(*meta))
                    .maybe_ttl(ttl.to_ttl())
                    .build();
                self.do_import(&what, f)?;
            }
            Op::ImportReg { ts_off, salt, adjacent_to } => {
                let ts = (self.model.now as i64 + ts_off).max(1) as u64;
                let mut id = match adjacent_to {
                    Some(k) if !self.reg.is_empty() => Scru128Id::from_u128(self.reg[k % self.reg.len()].to_u128() + 1),
                    // context ids are key prefixes: put some of them on a byte boundary (…ff,
                    // …ffff) so that the neighbouring id (adjacent_to) needs a carry
                    // (the all-zero id is the zero context's own id)
                    _ if salt % 32 == 7 => ZERO_CONTEXT,
                    _ => match salt % 4 {
                        0 => Scru128Id::from_u128(fresh_id(ts, *salt).to_u128() | 0xff),
                        1 => Scru128Id::from_u128(fresh_id(ts, *salt).to_u128() | 0xffff),
                        _ => fresh_id(ts, *salt),
                    },
                };
                while self.model.frames.contains_key(&id) || self.issued.contains(&id) {
                    id = Scru128Id::from_u128(id.to_u128() + 1);
                }
                if id.to_u128() & 0xff == 0xff {
                    self.w.probe("ctx:id-ends-ff");
                }
                if id.to_u128() & 0xff == 0 && adjacent_to.is_some() {
                    self.w.probe("ctx:adjacent-across-carry");
                }
                let f = Frame::builder("xs.context", ZERO_CONTEXT).id(id).ttl(TTL::Forever).build();
                self.do_import(&what, f)?;
            }
            Op::ReImport { id } => {
                let id = self.idref(id);
                if let Some(mf) = self.model.frames.get(&id) {
                    let f = mf.frame.clone();
                    self.w.probe(if mf.removed { "import:resurrect-removed" } else { "import:duplicate" });
                    self.do_import(&what, f)?;
                }
            }
            Op::ReImportAs { id, topic, ctx } => {
                let id = self.idref(id);
                let c = self.ctx(ctx);
                if let Some(mf) = self.model.frames.get(&id) {
                    let old = mf.frame.clone();
                    // (registrations keep their place; a NUL topic is another check's business)
                    if old.topic != "xs.context" && topic != "xs.context" && !topic.as_bytes().contains(&0) && self.model.usable(&c) != Tri::Absent {
                        let f = Frame { topic: topic.clone(), context_id: c, ..old.clone() };
                        if f.topic != old.topic || f.context_id != old.context_id {
                            self.w.probe("import:same-id-elsewhere");
                        }
                        self.do_import(&what, f)?;
                    }
                }
            }
            Op::Remove { id } => {
                let id = self.idref(id);
                let known = self.model.frames.get(&id).map(|f| (f.removed, f.frame.topic.clone(), f.frame.context_id));
                let res = self.store().remove(&id);
                if let Err(e) = res {
                    return violation("remove/failed", format!("{}: remove({}) failed: {}", what, id, e));
                }
                match known {
                    Some((false, topic, ctx)) => {
                        self.w.probe("remove:live");
                        if self.flushed {
                            self.w.probe("layout:tombstone-over-segment");
                        }
                        if topic == "xs.context" && ctx == ZERO_CONTEXT {
                            self.w.probe("ctx:unregistered");
                        }
                    }
                    Some((true, _, _)) => self.w.probe("remove:again"),
                    None => self.w.probe("remove:unknown"),
                }
                self.model.remove(&id);
                self.drain_follower(&what)?;
            }
            Op::Tick { ms } => {
                let now = self.w.ctrl.now() + ms;
                self.set_clock(now)?;
            }
            Op::TickToEdge { k, delta } => {
                if !self.time_frames.is_empty() {
                    let id = self.time_frames[k % self.time_frames.len()];
                    if let Some(mf) = self.model.frames.get(&id) {
                        if let Some(e) = crate::model::expiry_of(&mf.frame) {
                            let target = (e as i64 + delta) as u64;
                            if target > self.w.ctrl.now() && target < self.w.ctrl.now() + 200_000 {
                                self.set_clock(target)?;
                                self.w.probe(match delta {
                                    -1 => "clock:edge-1",
                                    0 => "clock:edge",
                                    _ => "clock:edge+1",
                                });
                            }
                        }
                    }
                }
            }
            Op::ClockBack { ms } => {
                let now = self.w.ctrl.now().saturating_sub(*ms).max(EPOCH_MS);
                // C01 quantifies over clock advances; small backward steps are injected as a
                // fault, but only inside the id generator's rollback allowance (10 s): beyond it
                // scru128 restarts its ids at the earlier timestamp by design
                if self.clock_high.max(self.w.ctrl.now()).saturating_sub(now) >= 9_000 {
                    self.w.probe("clock:back-capped");
                } else {
                    self.set_clock(now)?;
                    self.w.probe("clock:back");
                }
            }
            Op::GcStep => {
                self.gc_step()?;
            }
            Op::GcDrain => self.gc_drain()?,
            Op::Flush => {
                self.store().verif_flush().map_err(|e| Stop::Harness(format!("flush: {}", e)))?;
                self.flushed = true;
                if self.store().verif_segment_count() > 0 {
                    self.w.probe("layout:flushed");
                }
                if self.store().verif_journal_count() > 1 {
                    self.w.probe("layout:multi-journal");
                }
            }
            Op::Compact => {
                self.store().verif_flush().map_err(|e| Stop::Harness(format!("flush: {}", e)))?;
                self.flushed = true;
                let before = self.store().verif_segment_count();
                self.store().verif_compact().map_err(|e| Stop::Harness(format!("compact: {}", e)))?;
                let after = self.store().verif_segment_count();
                self.w.probe("layout:compacted");
                if after < before {
                    self.w.probe("layout:compaction-merged-segments");
                }
            }
            Op::Reopen { crash } => self.reopen(&what, *crash)?,
            Op::ReadSync { ctx, last, limit } => {
                let c = ctx.as_ref().map(|c| self.ctx(c));
                let l = last.as_ref().map(|l| self.idref(l));
                let res: Vec<Frame> = self.store().read_sync(l.as_ref(), *limit, c).collect();
                self.w.probe("read:sync");
                self.w.log(format!("  -> {} frames #{:x}", res.len(), crate::rng::fnv1a(res.iter().map(|f| f.id.to_string()).collect::<Vec<_>>().join(",").as_bytes())));
                if !res.is_empty() && limit.map(|x| res.len() == x).unwrap_or(false) {
                    self.w.probe("read:limit-cut");
                }
                self.model.check_read(&what, c, l, *limit, &res, None)?;
            }
            Op::ReadAsync { ctx, last, limit, cap, sched, chaos } => {
                let c = ctx.as_ref().map(|c| self.ctx(c));
                let l = last.as_ref().map(|l| self.idref(l));
                self.read_async(&what, c, l, *limit, *cap, *sched, *chaos)?;
            }
            Op::ReadSyncLazy { ctx, last, limit, first, edge } => {
                let c = ctx.as_ref().map(|c| self.ctx(c));
                let l = last.as_ref().map(|l| self.idref(l));
                let store = self.store().clone();
                let mut it = store.read_sync(l.as_ref(), *limit, c);
                let mut part1: Vec<Frame> = Vec::new();
                for _ in 0..*first {
                    match it.next() {
                        Some(f) => part1.push(f),
                        None => break,
                    }
                }
                let lim1 = Some((*first).min(limit.unwrap_or(usize::MAX)));
                self.model.check_read(&format!("{} [first part]", what), c, l, lim1, &part1, None)?;
                if part1.len() == *first && limit.map(|x| x > *first).unwrap_or(true) {
                    // move the clock to (or past) the next expiry edge while the iterator is open
                    let now = self.w.ctrl.now();
                    let mut edges: Vec<u64> = self
                        .model
                        .frames
                        .values()
                        .filter_map(|m| crate::model::expiry_of(&m.frame))
                        .filter(|e| *e > now && *e < now + 200_000)
                        .collect();
                    edges.sort();
                    let target = if edges.is_empty() { now + 1 } else { edges[edge % edges.len()] };
                    self.set_clock(target)?;
                    let part2: Vec<Frame> = it.collect();
                    let l2 = part1.last().map(|f| f.id).or(l);
                    let lim2 = limit.map(|x| x - *first);
                    self.w.probe("read:sync-lazy-tick");
                    self.model.check_read(&format!("{} [after the clock moved]", what), c, l2, lim2, &part2, None)?;
                } else {
                    drop(it);
                }
            }
            Op::Get { id } => {
                let id = self.idref(id);
                let got = self.store().get(&id);
                self.w.probe("get");
                self.model.check_get(&what, &id, got.as_ref())?;
            }
            Op::Head { topic, ctx } => {
                if !topic.as_bytes().contains(&0) {
                    let c = self.ctx(ctx);
                    let got = self.store().head(topic, c);
                    self.w.probe("head");
                    self.model.check_head(&what, topic, &c, got.as_ref())?;
                }
            }
            Op::Settle => self.settle(&what)?,
            Op::Bulk { topic, ctx, n } => {
                let c = self.ctx(ctx);
                let before = self.store().verif_segment_count();
                for k in 0..*n {
                    self.do_append(&format!("{} #{}", what, k), topic, c, None, meta_pool(9), None)?;
                }
                // give the flush worker a moment; the result of reads must not depend on it
                for _ in 0..200 {
                    if self.store().verif_segment_count() > before {
                        self.w.probe("layout:size-triggered-flush");
                        self.flushed = true;
                        break;
                    }
                    std::thread::sleep(Duration::from_millis(2));
                }
                let all: Vec<Frame> = self.store().read_sync(None, None, None).collect();
                self.model.check_read(&format!("{} (after bulk data)", what), None, None, None, &all, None)?;
            }
        }
        Ok(())
    }

    fn read_async(&mut self, what: &str, c: Option<Scru128Id>, l: Option<Scru128Id>, limit: Option<usize>, cap: usize, sched: u64, chaos: u32) -> R<()> {
        let before: HashMap<Scru128Id, Tri> = self
            .model
            .candidates(c, l)
            .into_iter()
            .map(|id| (id, self.model.stream(&self.model.frames[&id])))
            .collect();
        // channel capacity is a knob read when read() creates its channel
        self.w.ctrl.set_knob("read.cap", cap);
        let store = self.store().clone();
        let opts = ReadOptions::builder().maybe_last_id(l).maybe_limit(limit).maybe_context_id(c).build();
        let (otx, orx) = std::sync::mpsc::channel();
        self.w.rt().spawn(async move {
            let rx = store.read(opts).await;
            let _ = otx.send(rx);
        });
        self.w.step_tokio()?;
        let mut rx = match orx.try_recv() {
            Ok(rx) => rx,
            Err(_) => return harness("read() did not return its receiver"),
        };
        self.w.ctrl.set_knob("read.cap", 100);
        let mut chooser = Chooser::new(sched, Policy::Uniform, vec![]);
        let mut got: Vec<Frame> = Vec::new();
        let mut overlapped = false;
        let mut guard = 0;
        loop {
            guard += 1;
            if guard > 200_000 {
                return harness("async read did not finish");
            }
            // drain what is there
            let mut closed = false;
            loop {
                match rx.try_recv() {
                    Ok(f) => got.push(f),
                    Err(tokio::sync::mpsc::error::TryRecvError::Empty) => break,
                    Err(tokio::sync::mpsc::error::TryRecvError::Disconnected) => {
                        closed = true;
                        break;
                    }
                }
            }
            if closed {
                break;
            }
            let allow_chaos = chaos > 0 && chooser.rng.chance(chaos);
            let extra: Vec<String> = if allow_chaos { vec!["tick1".to_string(), "tick-edge".to_string()] } else { vec![] };
            let picked = self.w.decide(&mut chooser, &extra, &|e| e.actor_kind == "history" || (allow_chaos && e.actor_kind == "gc"))?;
            let mut history_moved = false;
            match picked {
                Picked::Ran(label) => {
                    if label.starts_with("history") {
                        history_moved = true;
                    }
                    if label.starts_with("gc") {
                        overlapped = true;
                        self.model.gc_progress();
                        self.w.probe("read:async-overlap-gc");
                    }
                }
                Picked::Extra(k) => {
                    overlapped = true;
                    let now = self.w.ctrl.now();
                    let target = if k == 0 {
                        now + 1
                    } else {
                        self.model
                            .frames
                            .values()
                            .filter_map(|m| crate::model::expiry_of(&m.frame))
                            .filter(|e| *e > now && *e < now + 200_000)
                            .min()
                            .unwrap_or(now + 1)
                    };
                    self.set_clock(target)?;
                    self.w.probe("read:async-overlap-tick");
                }
                Picked::Nothing => {
                    return harness(format!("async read stuck: nothing enabled; actors: {}", self.w.ctrl.describe_actors()));
                }
            }
            // the history thread decides on expiry right before it parks to deliver: a frame it
            // is about to deliver must not be expired at this clock position
            // (only when the thread has just arrived there; the clock may move while it is parked)
            for (kind, site, detail) in self.w.ctrl.parked() {
                if history_moved && kind == "history" && site == "hist.deliver" {
                    let id = Scru128Id::from_u128(detail);
                    if let Some(mf) = self.model.frames.get(&id) {
                        if self.model.currently_expired(mf) {
                            return violation(
                                "read/unexpected-expired",
                                format!("{} [async]: the read is about to deliver {} although its TTL has elapsed (now {})", what, fmt_frame(&mf.frame), self.model.now),
                            );
                        }
                    }
                }
            }
        }
        self.w.probe("read:async");
        self.w.log(format!("  -> {} frames #{:x}", got.len(), crate::rng::fnv1a(got.iter().map(|f| f.id.to_string()).collect::<Vec<_>>().join(",").as_bytes())));
        if cap < 100 && got.len() > cap {
            self.w.probe("read:async-backpressure");
        }
        for f in &got {
            if f.topic == "xs.threshold" && f.ttl == Some(TTL::Ephemeral) && !self.model.frames.contains_key(&f.id) {
                return violation("read/synthetic-in-nonfollow", format!("{}: a non-following read delivered {}", what, fmt_frame(f)));
            }
        }
        self.model.check_read(&format!("{} [async]", what), c, l, limit, &got, if overlapped { Some(&before) } else { None })?;
        Ok(())
    }

    fn probe_contexts(&mut self) -> Vec<(Scru128Id, Tri)> {
        let mut v: Vec<Scru128Id> = self.reg.clone();
        for k in 0..2 {
            v.push(self.ctx(&CtxRef::Unreg(k)));
        }
        for s in self.suspects.clone() {
            if !v.contains(&s) {
                v.push(s);
            }
        }
        v.into_iter().map(|c| (c, self.model.usable(&c))).collect()
    }

    fn reopen(&mut self, what: &str, crash: bool) -> R<()> {
        self.drain_follower(what)?;
        // usable contexts must be the same before and after: probe appends on both sides
        let ctxs = self.probe_contexts();
        let mut before = Vec::new();
        for (c, _) in &ctxs {
            let ok = self.do_append(&format!("{} (probe before reopen)", what), "probe", *c, None, None, None)?.is_some();
            before.push(ok);
        }
        self.follower_rx = None;
        self.follower_expect.clear();
        let old = self.store.take().unwrap();
        // both kinds continue on a byte copy of the directory (the old keyspace needs ~250 ms to
        // stop its threads and is dropped in the background); a clean reopen first lets the
        // collector finish its queue, a crash reopen loses the queue
        if !crash {
            self.gc_drain()?;
            self.w.probe("layout:reopened-clean");
        } else {
            self.model.gc_queue_lost();
            let pairs: Vec<(Scru128Id, String)> = self.model.head_min_k.keys().cloned().collect();
            for p in pairs {
                self.model.imported_after_head.insert(p.clone());
                self.model.head_check_lost.insert(p.clone());
                self.model.imported_into_head_pair.insert(p);
            }
            self.w.probe("layout:reopened-crash");
        }
        self.gen += 1;
        let newp = self.w.dir.join(format!("s{}", self.gen));
        copy_dir_stable(&self.path, &newp).map_err(Stop::Harness)?;
        let oldp = self.path.clone();
        self.w.close_store(old, Some(oldp))?;
        self.path = newp;
        let p = self.path.clone();
        let store = self.w.open_store(&p)?;
        self.store = Some(store);
        self.model.bump();
        self.flushed = self.store().verif_segment_count() > 0;
        if self.plan_follower {
            self.attach_follower()?;
        }
        for (i, (c, _)) in ctxs.iter().enumerate() {
            let ok = self.do_append(&format!("{} (probe after reopen)", what), "probe", *c, None, None, None)?.is_some();
            if ok != before[i] {
                return violation(
                    "ctx/reopen-changed",
                    format!("{}: context {} accepted appends = {} before the reopen but {} after it", what, short_ctx(c), before[i], ok),
                );
            }
        }
        Ok(())
    }

    fn defer(&mut self, r: R<()>) -> R<()> {
        match r {
            Err(Stop::Violation(v)) if self.agree_first => {
                self.deferred.get_or_insert(v);
                Ok(())
            }
            r => r,
        }
    }

    pub fn settle(&mut self, what: &str) -> R<()> {
        self.w.probe("settle");
        self.drain_follower(what)?;
        // every other settle point starts with a physical sweep: drain the collector with
        // whatever the earlier reads queued (a full scan below would queue everything again and
        // hide a lost removal), then look every issued id up
        self.settles += 1;
        if self.settles % 2 == 0 {
            self.gc_drain()?;
            let issued = self.issued.clone();
            for id in &issued {
                let got = self.store().get(id);
                let mr = self.model.check_get(&format!("{} settle/sweep", what), id, got.as_ref());
                self.defer(mr)?;
            }
            self.w.probe("settle:sweep");
        }
        let all: Vec<Frame> = self.store().read_sync(None, None, None).collect();
        let r = self.model.check_read(&format!("{} settle/all-1", what), None, None, None, &all, None);
        self.defer(r)?;
        self.gc_drain()?;
        let all: Vec<Frame> = self.store().read_sync(None, None, None).collect();
        let r = self.model.check_read(&format!("{} settle/all", what), None, None, None, &all, None);
        self.defer(r)?;
        let all_ids: HashSet<Scru128Id> = all.iter().map(|f| f.id).collect();
        let mut ctxs = self.model.contexts_seen();
        for c in self.reg.clone() {
            if !ctxs.contains(&c) {
                ctxs.push(c);
            }
        }
        let mut per_ctx: HashMap<Scru128Id, Vec<Frame>> = HashMap::new();
        for c in &ctxs {
            let r: Vec<Frame> = self.store().read_sync(None, None, Some(*c)).collect();
            let mr = self.model.check_read(&format!("{} settle/ctx {}", what, short_ctx(c)), Some(*c), None, None, &r, None);
            self.defer(mr)?;
            for f in &r {
                if f.context_id != *c {
                    return violation("ctx/leak:read_sync", format!("{}: read_sync(ctx {}) returned {}", what, short_ctx(c), fmt_frame(f)));
                }
            }
            per_ctx.insert(*c, r);
        }
        // agreement between the three ways of finding a frame
        let issued = self.issued.clone();
        for id in &issued {
            let got = self.store().get(id);
            let mr = self.model.check_get(&format!("{} settle/get", what), id, got.as_ref());
            self.defer(mr)?;
            let in_all = all_ids.contains(id);
            if got.is_some() != in_all {
                return violation(
                    "agree/get-vs-all",
                    format!("{}: get({}) is {} but the all-contexts stream {} it", what, id, if got.is_some() { "some" } else { "none" }, if in_all { "contains" } else { "does not contain" }),
                );
            }
            if let Some(g) = &got {
                let in_ctx = per_ctx.get(&g.context_id).map(|v| v.iter().any(|f| f.id == *id)).unwrap_or(false);
                if !in_ctx {
                    return violation(
                        "agree/get-vs-ctx",
                        format!("{}: {} is found by id and in the all-contexts stream but not in its own context's stream", what, fmt_frame(g)),
                    );
                }
            }
        }
        for (c, v) in &per_ctx {
            for f in v {
                if !all_ids.contains(&f.id) {
                    return violation("agree/ctx-vs-all", format!("{}: {} is in context {}'s stream but not in the all-contexts stream", what, fmt_frame(f), short_ctx(c)));
                }
            }
        }
        // head == last frame of the context's stream with exactly that topic
        let mut topics: Vec<String> = TOPICS.iter().map(|s| s.to_string()).collect();
        for t in self.model.topics_seen() {
            if !topics.contains(&t) {
                topics.push(t);
            }
        }
        for c in &ctxs {
            let v = &per_ctx[c];
            for t in &topics {
                let want = v.iter().rev().find(|f| f.topic == *t);
                let got = self.store().head(t, *c);
                if got.as_ref() != want {
                    return violation(
                        "head/settled-mismatch",
                        format!(
                            "{}: head({:?}, {}) = {} but the last frame of that topic in the context's stream is {}",
                            what,
                            t,
                            short_ctx(c),
                            got.as_ref().map(fmt_frame).unwrap_or_else(|| "nothing".into()),
                            want.map(fmt_frame).unwrap_or_else(|| "nothing".into())
                        ),
                    );
                }
                let mr = self.model.check_head(&format!("{} settle/head", what), t, c, got.as_ref());
                self.defer(mr)?;
            }
        }
        if let Some(v) = self.deferred.take() {
            return Err(Stop::Violation(v));
        }
        // head:N clause after the collector drained
        let mut groups: BTreeMap<(Scru128Id, String), Vec<&Frame>> = BTreeMap::new();
        for f in &all {
            groups.entry((f.context_id, f.topic.clone())).or_default().push(f);
        }
        for (key, v) in &groups {
            if self.model.imported_after_head.contains(key) || self.model.head_check_lost.contains(key) {
                continue;
            }
            let newest = v.last().unwrap();
            if let Some(TTL::Head(n)) = newest.ttl {
                let appended = self.model.frames.get(&newest.id).map(|m| m.how == How::Appended).unwrap_or(false);
                if appended {
                    self.w.probe("ttl:head-clause-checked");
                    if v.len() > n as usize {
                        return violation(
                            "ttl/head-overflow",
                            format!(
                                "{}: after the collector drained, topic {:?} in context {} holds {} frames although its newest frame carries head:{}: [{}]",
                                what,
                                key.1,
                                short_ctx(&key.0),
                                v.len(),
                                n,
                                v.iter().map(|f| f.id.to_string()).collect::<Vec<_>>().join(",")
                            ),
                        );
                    }
                }
            }
        }
        // no older frame survives while a newer one of the topic was evicted
        let mut by_pair: BTreeMap<(Scru128Id, String), Vec<&crate::model::MFrame>> = BTreeMap::new();
        for m in self.model.frames.values() {
            by_pair.entry((m.frame.context_id, m.frame.topic.clone())).or_default().push(m);
        }
        for (key, v) in &by_pair {
            if self.model.imported_into_head_pair.contains(key) || self.model.imported_after_head.contains(key) || !self.model.head_min_k.contains_key(key) {
                continue;
            }
            let mut evicted_newer: Option<&crate::model::MFrame> = None;
            for m in v.iter().rev() {
                if m.removed || m.ever_expired {
                    continue;
                }
                let present = all_ids.contains(&m.frame.id);
                if !present {
                    evicted_newer = Some(m);
                } else if let Some(n) = evicted_newer {
                    return violation(
                        "ttl/head-order",
                        format!(
                            "{}: in topic {:?} of context {}, {} survives although the newer {} was evicted",
                            what,
                            key.1,
                            short_ctx(&key.0),
                            fmt_frame(&m.frame),
                            fmt_frame(&n.frame)
                        ),
                    );
                }
            }
        }
        Ok(())
    }

    pub fn finish(mut self) -> (BTreeMap<String, u64>, u64, u64, Vec<String>) {
        self.follower_rx = None;
        if let Some(s) = self.store.take() {
            let _ = self.w.close_store(s, None);
        }
        self.w.finish()
    }
}

pub fn op_short(op: &Op) -> String {
    let s = format!("{:?}", op);
    if s.len() > 160 {
        format!("{}..", &s[..160])
    } else {
        s
    }
}

/// Copy a live store directory; retried until the directory listing (names, sizes) is the
/// same before and after the copy, so the image is one the file system really held.
pub fn copy_dir_stable(from: &std::path::Path, to: &std::path::Path) -> Result<(), String> {
    for _ in 0..50 {
        let before = listing(from);
        let _ = std::fs::remove_dir_all(to);
        copy_dir(from, to).map_err(|e| format!("copy_dir: {}", e))?;
        let after = listing(from);
        if before == after {
            return Ok(());
        }
        std::thread::sleep(Duration::from_millis(2));
    }
    Err("store directory kept changing while copying".to_string())
}

fn listing(p: &std::path::Path) -> Vec<(String, u64)> {
    let mut v = Vec::new();
    fn walk(p: &std::path::Path, v: &mut Vec<(String, u64)>) {
        if let Ok(rd) = std::fs::read_dir(p) {
            for e in rd.flatten() {
                let path = e.path();
                if path.is_dir() {
                    walk(&path, v);
                } else {
                    let len = e.metadata().map(|m| m.len()).unwrap_or(0);
                    v.push((path.to_string_lossy().to_string(), len));
                }
            }
        }
    }
    walk(p, &mut v);
    v.sort();
    v
}

pub fn copy_dir(from: &std::path::Path, to: &std::path::Path) -> std::io::Result<()> {
    std::fs::create_dir_all(to)?;
    for e in std::fs::read_dir(from)? {
        let e = e?;
        let p = e.path();
        let dest = to.join(e.file_name());
        let ft = e.file_type()?;
        if ft.is_dir() {
            copy_dir(&p, &dest)?;
        } else if ft.is_file() {
            match std::fs::copy(&p, &dest) {
                Ok(_) => {}
                Err(err) if err.kind() == std::io::ErrorKind::NotFound => {}
                Err(err) => return Err(err),
            }
        }
    }
    Ok(())
}

pub fn exec_value(plan: &serde_json::Value, tag: &str) -> crate::props::RunResult {
    use crate::props::RunResult;
    let plan: Plan = match serde_json::from_value(plan.clone()) {
        Ok(p) => p,
        Err(e) => {
            return RunResult { violation: None, harness: Some(format!("bad plan: {}", e)), probes: BTreeMap::new(), decisions: 0, sim_ms: 0, trace: vec![], choices: vec![], plan_patch: None }
        }
    };
    let mut ex = match Exec::new(tag, plan.seed, plan.follower) {
        Ok(e) => e,
        Err(Stop::Harness(h)) => return RunResult { violation: None, harness: Some(h), probes: BTreeMap::new(), decisions: 0, sim_ms: 0, trace: vec![], choices: vec![], plan_patch: None },
        Err(Stop::Violation(v)) => return RunResult { violation: Some(v), harness: None, probes: BTreeMap::new(), decisions: 0, sim_ms: 0, trace: vec![], choices: vec![], plan_patch: None },
    };
    ex.agree_first = plan.prop == "C05";
    let res = std::panic::catch_unwind(std::panic::AssertUnwindSafe(|| ex.run_plan(&plan)));
    let (violation, harness) = match res {
        Ok(Ok(())) => (None, None),
        Ok(Err(Stop::Violation(v))) => (Some(v), None),
        Ok(Err(Stop::Harness(h))) => (None, Some(h)),
        Err(p) => (
            Some(crate::world::Violation::new("read/panic", format!("store operation panicked: {}", crate::world::panic_msg(&p)))),
            None,
        ),
    };
    let (probes, decisions, sim_ms, trace) = ex.finish();
    RunResult { violation, harness, probes, decisions, sim_ms, trace, choices: vec![], plan_patch: None }
}
