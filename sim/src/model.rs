//! Single-copy reference model of what a user of the store may rely on.
//! Presence is three-valued because garbage collection is lazy and asynchronous: the
//! oracle never mirrors the collector's internal order, it only states what MUST be
//! present, what MUST be absent, and accepts either for the rest - while demanding that all
//! access paths agree and that nothing reappears once observed gone.

use std::collections::{BTreeMap, HashMap, HashSet};

use scru128::Scru128Id;
use xs::store::{Frame, TTL, ZERO_CONTEXT};

use crate::world::{violation, Violation, R};

#[derive(Clone, Copy, Debug, PartialEq, Eq)]
pub enum Tri {
    Present,
    Absent,
    May,
}

#[derive(Clone, Copy, Debug, PartialEq, Eq)]
pub enum How {
    Appended,
    Imported,
}

#[derive(Clone, Debug)]
pub struct MFrame {
    pub frame: Frame,
    pub how: How,
    pub removed: bool,
    /// observed physically absent (get -> None, or skipped by a covering read while not expired)
    pub gone: bool,
    /// outside the K newest of its (ctx, topic) at some moment after a head:K append there
    pub evictable: bool,
    /// its time:N TTL had elapsed at some clock position
    pub ever_expired: bool,
    /// a stream read covered it while expired (a Remove task is queued)
    pub expired_seen: bool,
    /// the collector drained after such a read: must be physically gone
    pub must_gone: bool,
    /// model version at which it was last observed physically present
    pub seen_present_at: Option<u64>,
}

#[derive(Clone, Debug, Default)]
pub struct Model {
    pub frames: BTreeMap<Scru128Id, MFrame>,
    /// min K over head:K frames *appended* to (ctx, topic)
    pub head_min_k: HashMap<(Scru128Id, String), u32>,
    /// (ctx, topic) that received an import after their last head append (C09 clause not claimed)
    pub imported_after_head: HashSet<(Scru128Id, String)>,
    /// pairs whose pending head check was lost with the collector's queue in a crash: a later
    /// head:N append only evicts by its own N, so the newest-frame clause cannot be judged
    pub head_check_lost: HashSet<(Scru128Id, String)>,
    /// (ctx, topic) that ever received an import after a head append: an imported older frame
    /// may legitimately outlive a newer evicted one (order clause not claimed)
    pub imported_into_head_pair: HashSet<(Scru128Id, String)>,
    pub ephemeral: Vec<Frame>,
    pub now: u64,
    /// bumped by every event that can change physical state
    pub version: u64,
    pub last_append_id: Option<Scru128Id>,
    pub appended_ids: Vec<Scru128Id>,
}

/// JSON `null` meta and absent meta are the same thing on the wire (`"meta":null`).
pub fn norm(f: &Frame) -> Frame {
    let mut g = f.clone();
    if g.meta == Some(serde_json::Value::Null) {
        g.meta = None;
    }
    g
}

pub fn expiry_of(f: &Frame) -> Option<u64> {
    match &f.ttl {
        Some(TTL::Time(d)) => Some(f.id.timestamp().saturating_add(d.as_millis() as u64)),
        _ => None,
    }
}

pub fn fmt_frame(f: &Frame) -> String {
    format!(
        "{{id:{} ctx:{} topic:{:?} ttl:{:?} hash:{} meta:{}}}",
        f.id,
        short_ctx(&f.context_id),
        f.topic,
        f.ttl,
        f.hash.as_ref().map(|h| h.to_string()).unwrap_or_else(|| "-".into()),
        f.meta
            .as_ref()
            .map(|m| {
                let s = m.to_string();
                if s.len() > 40 {
                    format!("{}..({}B)", &s[..s.char_indices().nth(30).map(|x| x.0).unwrap_or(s.len())], s.len())
                } else {
                    s
                }
            })
            .unwrap_or_else(|| "-".into())
    )
}

pub fn short_ctx(c: &Scru128Id) -> String {
    if *c == ZERO_CONTEXT {
        "ZERO".to_string()
    } else {
        c.to_string()
    }
}

impl Model {
    pub fn new(now: u64) -> Self {
        Model {
            now,
            ..Default::default()
        }
    }

    pub fn bump(&mut self) {
        self.version += 1;
    }

    pub fn currently_expired(&self, f: &MFrame) -> bool {
        match expiry_of(&f.frame) {
            Some(e) => self.now >= e,
            None => false,
        }
    }

    pub fn phys(&self, f: &MFrame) -> Tri {
        if f.removed || f.gone || f.must_gone {
            Tri::Absent
        } else if f.seen_present_at == Some(self.version) {
            Tri::Present
        } else if f.evictable || f.ever_expired {
            Tri::May
        } else {
            Tri::Present
        }
    }

    pub fn stream(&self, f: &MFrame) -> Tri {
        if self.currently_expired(f) {
            Tri::Absent
        } else {
            self.phys(f)
        }
    }

    pub fn set_now(&mut self, now: u64) {
        self.now = now;
        self.bump();
        let ids: Vec<Scru128Id> = self.frames.keys().copied().collect();
        for id in ids {
            let f = self.frames.get(&id).unwrap();
            if let Some(e) = expiry_of(&f.frame) {
                if now >= e {
                    self.frames.get_mut(&id).unwrap().ever_expired = true;
                }
            }
        }
    }

    /// Is `ctx` usable for appends? Derived from stored frames only.
    pub fn usable(&self, ctx: &Scru128Id) -> Tri {
        if *ctx == ZERO_CONTEXT {
            return Tri::Present;
        }
        match self.frames.get(ctx) {
            Some(f) if f.frame.context_id == ZERO_CONTEXT && f.frame.topic == "xs.context" => self.phys(f),
            _ => Tri::Absent,
        }
    }

    /// What must an append of (topic, ctx) do?  Present = must succeed, Absent = must fail.
    pub fn expect_append(&self, topic: &str, ctx: &Scru128Id) -> Tri {
        if topic == "xs.context" {
            if *ctx != ZERO_CONTEXT {
                return Tri::Absent;
            }
            return Tri::Present;
        }
        let u = self.usable(ctx);
        if u == Tri::Absent {
            return Tri::Absent;
        }
        if topic.as_bytes().contains(&0) {
            return Tri::Absent;
        }
        // the topic index key (context, topic, delimiter, id) must fit 65535 bytes
        if topic.len() > 65535 - 33 {
            return Tri::Absent;
        }
        u
    }

    fn recompute_evictable(&mut self, ctx: Scru128Id, topic: &str) {
        let key = (ctx, topic.to_string());
        let Some(k) = self.head_min_k.get(&key).copied() else {
            return;
        };
        // rank among frames possibly physically present, newest first
        let mut ids: Vec<Scru128Id> = self
            .frames
            .values()
            .filter(|f| f.frame.context_id == ctx && f.frame.topic == topic)
            .filter(|f| self.phys(f) != Tri::Absent)
            .map(|f| f.frame.id)
            .collect();
        ids.sort();
        ids.reverse();
        for id in ids.into_iter().skip(k as usize) {
            self.frames.get_mut(&id).unwrap().evictable = true;
        }
    }

    /// Record an accepted append (the frame as returned by the store).
    pub fn accept_append(&mut self, f: &Frame) {
        self.bump();
        self.last_append_id = Some(f.id);
        self.appended_ids.push(f.id);
        if f.ttl == Some(TTL::Ephemeral) {
            self.ephemeral.push(f.clone());
            return;
        }
        self.insert(f, How::Appended);
        // an imported frame with an id ahead of the clock makes id order and arrival order of
        // the topic differ: "older" by id may then mean "appended after the eviction", and the
        // head-order clause cannot be judged for this (context, topic) any more
        if self.frames.values().any(|m| m.frame.context_id == f.context_id && m.frame.topic == f.topic && m.frame.id > f.id) {
            self.imported_into_head_pair.insert((f.context_id, f.topic.clone()));
        }
        if let Some(TTL::Head(k)) = f.ttl {
            let key = (f.context_id, f.topic.clone());
            let e = self.head_min_k.entry(key.clone()).or_insert(k);
            if k < *e {
                *e = k;
            }
            self.imported_after_head.remove(&key);
        }
        self.recompute_evictable(f.context_id, &f.topic.clone());
    }

    pub fn accept_import(&mut self, f: &Frame) {
        self.bump();
        self.insert(f, How::Imported);
        let key = (f.context_id, f.topic.clone());
        if self.head_min_k.contains_key(&key) {
            self.imported_after_head.insert(key.clone());
            self.imported_into_head_pair.insert(key);
        }
        self.recompute_evictable(f.context_id, &f.topic.clone());
    }

    fn insert(&mut self, f: &Frame, how: How) {
        let mut m = MFrame {
            frame: norm(f),
            how,
            removed: false,
            gone: false,
            evictable: false,
            ever_expired: false,
            expired_seen: false,
            must_gone: false,
            seen_present_at: None,
        };
        if let Some(e) = expiry_of(f) {
            if self.now >= e {
                m.ever_expired = true;
            }
        }
        // re-import of an id: a Remove task queued while the earlier copy was expired may still
        // be pending in the collector (possible when the clock stepped back since), so the
        // frame stays "may" rather than "must be present"
        if let Some(old) = self.frames.get(&f.id) {
            if old.ever_expired {
                m.ever_expired = true;
            }
            // likewise an eviction decided by the collector before the re-import may still be
            // carried out after it
            if old.evictable {
                m.evictable = true;
            }
        }
        self.frames.insert(f.id, m);
    }

    pub fn remove(&mut self, id: &Scru128Id) {
        self.bump();
        if let Some(f) = self.frames.get_mut(id) {
            f.removed = true;
        }
    }

    pub fn gc_progress(&mut self) {
        self.bump();
    }

    /// The collector's queue is empty: everything a read saw expired is physically gone.
    pub fn gc_drained(&mut self) {
        self.bump();
        for f in self.frames.values_mut() {
            if f.expired_seen {
                f.must_gone = true;
            }
        }
    }

    /// A crash loses the collector's queue.
    pub fn gc_queue_lost(&mut self) {
        self.bump();
        for f in self.frames.values_mut() {
            f.expired_seen = false;
        }
    }

    pub fn candidates(&self, ctx: Option<Scru128Id>, last_id: Option<Scru128Id>) -> Vec<Scru128Id> {
        self.frames
            .values()
            .filter(|f| ctx.map(|c| f.frame.context_id == c).unwrap_or(true))
            .filter(|f| last_id.map(|l| f.frame.id > l).unwrap_or(true))
            .map(|f| f.frame.id)
            .collect()
    }

    /// Check the result of a non-following read against the model and learn from it.
    /// `status_before` (optional) holds stream statuses taken when the read began, for reads
    /// that overlapped collector steps or clock ticks: a candidate is then constrained only
    /// if its status is the same at both ends.
    pub fn check_read(
        &mut self,
        what: &str,
        ctx: Option<Scru128Id>,
        last_id: Option<Scru128Id>,
        limit: Option<usize>,
        result: &[Frame],
        status_before: Option<&HashMap<Scru128Id, Tri>>,
    ) -> R<()> {
        // order
        for w in result.windows(2) {
            if w[0].id >= w[1].id {
                return violation(
                    "read/order",
                    format!("{}: ids not strictly increasing: {} then {}", what, w[0].id, w[1].id),
                );
            }
        }
        if let Some(l) = limit {
            if result.len() > l {
                return violation(
                    "read/limit-overrun",
                    format!("{}: limit {} but {} frames returned", what, l, result.len()),
                );
            }
        }
        let cands = self.candidates(ctx, last_id);
        let mut j = 0usize;
        let mut skipped: Vec<Scru128Id> = Vec::new();
        let mut seen: Vec<Scru128Id> = Vec::new();
        let full = |j: usize| limit.map(|l| j >= l).unwrap_or(false);
        for cid in &cands {
            if full(j) {
                break;
            }
            let mf = &self.frames[cid];
            let mut st = self.stream(mf);
            if let Some(b) = status_before {
                if let Some(sb) = b.get(cid) {
                    if *sb != st {
                        st = Tri::May;
                    }
                } else {
                    st = Tri::May;
                }
            }
            if j < result.len() && result[j].id == *cid {
                if st == Tri::Absent {
                    let why = if mf.removed {
                        "removed"
                    } else if self.currently_expired(mf) {
                        "expired"
                    } else if mf.must_gone {
                        "collected"
                    } else {
                        "observed-gone"
                    };
                    return violation(
                        format!("read/unexpected-{}", why),
                        format!("{}: returned {} which must be absent ({})", what, fmt_frame(&result[j]), why),
                    );
                }
                if norm(&result[j]) != mf.frame {
                    return violation(
                        "read/fields",
                        format!(
                            "{}: frame differs from what was accepted: got {} want {}",
                            what,
                            fmt_frame(&result[j]),
                            fmt_frame(&mf.frame)
                        ),
                    );
                }
                seen.push(*cid);
                j += 1;
            } else {
                if st == Tri::Present {
                    return violation(
                        "read/missing",
                        format!(
                            "{}: {} must be present (scope {:?}, last_id {:?}, limit {:?}) but was not returned; got [{}]",
                            what,
                            fmt_frame(&mf.frame),
                            ctx.map(|c| short_ctx(&c)),
                            last_id.map(|l| l.to_string()),
                            limit,
                            result.iter().map(|f| f.id.to_string()).collect::<Vec<_>>().join(",")
                        ),
                    );
                }
                skipped.push(*cid);
            }
        }
        if j < result.len() {
            let f = &result[j];
            let class = if self.ephemeral.iter().any(|e| e.id == f.id) {
                "read/unexpected-ephemeral"
            } else if !self.frames.contains_key(&f.id) {
                "read/unexpected-unknown"
            } else {
                "read/unexpected-scope"
            };
            return violation(
                class,
                format!(
                    "{}: returned {} which is not a candidate of this read (scope {:?}, last_id {:?})",
                    what,
                    fmt_frame(f),
                    ctx.map(|c| short_ctx(&c)),
                    last_id.map(|l| l.to_string())
                ),
            );
        }
        // learn
        let overlapped = status_before.is_some();
        let v = self.version;
        for id in seen {
            let f = self.frames.get_mut(&id).unwrap();
            if !overlapped {
                f.seen_present_at = Some(v);
            }
        }
        for id in skipped {
            let expired_now = {
                let f = &self.frames[&id];
                self.currently_expired(f)
            };
            let f = self.frames.get_mut(&id).unwrap();
            if expired_now {
                if !f.removed && !f.gone {
                    f.expired_seen = true;
                }
            } else if !overlapped && !f.removed {
                f.gone = true;
            }
        }
        Ok(())
    }

    pub fn check_get(&mut self, what: &str, id: &Scru128Id, got: Option<&Frame>) -> R<()> {
        match (self.frames.get(id), got) {
            (None, None) => Ok(()),
            (None, Some(g)) => {
                let class = if self.ephemeral.iter().any(|e| e.id == *id) {
                    "get/unexpected-ephemeral"
                } else {
                    "get/unexpected-unknown"
                };
                violation(class, format!("{}: get({}) returned {} but no such frame was stored", what, id, fmt_frame(g)))
            }
            (Some(mf), None) => {
                if self.phys(mf) == Tri::Present {
                    return violation(
                        "get/missing",
                        format!("{}: get({}) returned nothing but {} must be present", what, id, fmt_frame(&mf.frame)),
                    );
                }
                let f = self.frames.get_mut(id).unwrap();
                if !f.removed {
                    f.gone = true;
                }
                Ok(())
            }
            (Some(mf), Some(g)) => {
                if self.phys(mf) == Tri::Absent {
                    let why = if mf.removed {
                        "removed"
                    } else if mf.must_gone {
                        "collected"
                    } else {
                        "observed-gone"
                    };
                    return violation(
                        format!("get/unexpected-{}", why),
                        format!("{}: get({}) returned {} which must be absent ({})", what, id, fmt_frame(g), why),
                    );
                }
                if norm(g) != mf.frame {
                    return violation(
                        "get/fields",
                        format!("{}: get({}) = {} differs from accepted {}", what, id, fmt_frame(g), fmt_frame(&mf.frame)),
                    );
                }
                let v = self.version;
                self.frames.get_mut(id).unwrap().seen_present_at = Some(v);
                Ok(())
            }
        }
    }

    /// `head(topic, ctx)` checked at any moment: the result must be a frame of exactly that
    /// topic and context that may be present, and no newer frame of that pair is certainly
    /// present; if a frame of the pair is certainly present, head must return something.
    pub fn check_head(&mut self, what: &str, topic: &str, ctx: &Scru128Id, got: Option<&Frame>) -> R<()> {
        let pair: Vec<&MFrame> = self
            .frames
            .values()
            .filter(|f| f.frame.context_id == *ctx && f.frame.topic == topic)
            .collect();
        match got {
            None => {
                if let Some(f) = pair.iter().rev().find(|f| self.phys(f) == Tri::Present) {
                    return violation(
                        "head/missing",
                        format!("{}: head({:?}, {}) is nothing but {} must be present", what, topic, short_ctx(ctx), fmt_frame(&f.frame)),
                    );
                }
                Ok(())
            }
            Some(g) => {
                if g.topic != topic || g.context_id != *ctx {
                    return violation(
                        "head/wrong-topic",
                        format!("{}: head({:?}, {}) returned a frame of another topic/context: {}", what, topic, short_ctx(ctx), fmt_frame(g)),
                    );
                }
                let Some(mf) = self.frames.get(&g.id) else {
                    return violation(
                        "head/unexpected-unknown",
                        format!("{}: head({:?}, {}) returned {} which was never stored", what, topic, short_ctx(ctx), fmt_frame(g)),
                    );
                };
                if self.phys(mf) == Tri::Absent {
                    return violation(
                        "head/unexpected-absent",
                        format!("{}: head({:?}, {}) returned {} which must be absent", what, topic, short_ctx(ctx), fmt_frame(g)),
                    );
                }
                if norm(g) != mf.frame {
                    return violation(
                        "head/fields",
                        format!("{}: head returned {} want {}", what, fmt_frame(g), fmt_frame(&mf.frame)),
                    );
                }
                if let Some(newer) = pair
                    .iter()
                    .filter(|f| f.frame.id > g.id)
                    .find(|f| self.phys(f) == Tri::Present)
                {
                    return violation(
                        "head/not-newest",
                        format!(
                            "{}: head({:?}, {}) returned {} but the newer {} must be present",
                            what,
                            topic,
                            short_ctx(ctx),
                            fmt_frame(g),
                            fmt_frame(&newer.frame)
                        ),
                    );
                }
                let v = self.version;
                let id = g.id;
                self.frames.get_mut(&id).unwrap().seen_present_at = Some(v);
                Ok(())
            }
        }
    }

    pub fn contexts_seen(&self) -> Vec<Scru128Id> {
        let mut v: Vec<Scru128Id> = vec![ZERO_CONTEXT];
        for f in self.frames.values() {
            if !v.contains(&f.frame.context_id) {
                v.push(f.frame.context_id);
            }
        }
        v
    }

    pub fn topics_seen(&self) -> Vec<String> {
        let mut v: Vec<String> = Vec::new();
        for f in self.frames.values() {
            if !v.contains(&f.frame.topic) {
                v.push(f.frame.topic.clone());
            }
        }
        v
    }
}

pub fn as_violation(class: &str, text: String) -> Violation {
    Violation::new(class, text)
}
