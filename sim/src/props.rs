//! Registry: which engine decides which property, which violation classes belong to it,
//! what makes a run non-trivial for it, and the budgets of the two tiers.

use std::collections::BTreeMap;

use serde_json::Value;

use crate::world::Violation;

pub struct RunResult {
    pub violation: Option<Violation>,
    pub harness: Option<String>,
    pub probes: BTreeMap<String, u64>,
    pub decisions: u64,
    pub sim_ms: u64,
    pub trace: Vec<String>,
    /// scheduling choices as recorded (engines with a chooser); stored into the replay plan
    pub choices: Vec<String>,
    /// keys to merge into the plan of a violating run so that its replay is exact
    pub plan_patch: Option<Value>,
}

pub struct PropSpec {
    pub id: &'static str,
    /// primary engine
    pub engine: &'static str,
    /// optional mix of engines: (engine, weight); run index i uses the engine at i mod total weight
    pub mix: &'static [(&'static str, u32)],
    /// violation-class prefixes attributed to this property
    pub classes: &'static [&'static str],
    /// a run is non-trivial if every group has at least one probe that fired
    pub nontrivial: &'static [&'static [&'static str]],
    /// probes that must fire at least once per batch, else the batch is a hollow pass (exit 2)
    pub must_reach: &'static [&'static str],
    pub quick_runs: u64,
    pub thorough_runs: u64,
    pub rule: &'static str,
}

pub const PROPS: &[PropSpec] = &[
    PropSpec {
        id: "C01",
        engine: "e3",
        mix: &[],
        classes: &["read/", "get/", "append/id-not-increasing", "append/fields", "remove/failed", "reopen-failed", "import/rejected-valid"],
        nontrivial: &[&["read:sync", "read:async", "get"], &["remove:live", "gc:step", "gc:drain-nonempty", "import:ok", "clock:edge", "clock:edge+1", "layout:reopened-clean", "layout:reopened-crash", "layout:flushed"]],
        must_reach: &["read:sync", "read:async", "get", "remove:live", "import:ok", "gc:step", "layout:flushed", "layout:reopened-clean", "layout:reopened-crash", "read:limit-cut", "read:async-backpressure", "layout:tombstone-over-segment", "layout:compacted"],
        quick_runs: 12_000,
        thorough_runs: 400_000,
        rule: "histories generated from the seed (5-45 operations over append/import/remove/clock/gc-step/gc-drain/flush/major-compaction/reopen and read_sync/read/get/head probes); non-trivial = at least one probe operation and at least one of remove/gc/import/expiry-edge/flush/reopen happened; distinct = distinct hash of the executed operation+decision trace",
    },
    PropSpec {
        id: "C05",
        engine: "e3",
        mix: &[],
        classes: &["agree/", "head/", "append/accepted-nul", "import/accepted-invalid"],
        nontrivial: &[&["settle"], &["head"], &["remove:live", "gc:step", "import:ok"]],
        must_reach: &["settle", "head", "remove:live", "import:ok", "append:rejected", "import:rejected"],
        quick_runs: 12_000,
        thorough_runs: 400_000,
        rule: "histories biased to delimiter-adjacent topics, head lookups and settle points (full agreement check of get / all-contexts stream / per-context stream / head for every topic of the pool in every context); non-trivial = a settle, a head lookup and a remove/gc/import happened; distinct = distinct trace hash",
    },
    PropSpec {
        id: "C07",
        engine: "e3",
        mix: &[("e3", 3), ("e2", 1)],
        classes: &["ctx/reopen-changed", "ctx/registration-ttl", "append/accepted-unregistered", "append/accepted-regctx", "append/rejected-valid", "follow/unexpected"],
        nontrivial: &[&["ctx:registered", "ctx:imported-registration"], &["append:rejected", "ctx:unregistered", "layout:reopened-clean", "layout:reopened-crash"]],
        must_reach: &["ctx:registered", "ctx:imported-registration", "ctx:unregistered", "append:rejected", "layout:reopened-clean", "layout:reopened-crash", "ctx:append-raced-removal"],
        quick_runs: 10_000,
        thorough_runs: 300_000,
        rule: "histories of context registration / removal / import of registration frames / appends into registered, never-registered, unregistered-again and adjacent contexts / clean and crash reopen, with a tail follower attached; non-trivial = a registration and one of (rejected append, unregistration, reopen) happened; distinct = distinct trace hash",
    },
    PropSpec {
        id: "C08",
        engine: "e3",
        mix: &[],
        classes: &["read/missing", "get/missing", "head/missing"],
        nontrivial: &[&["gc:step", "gc:drain-nonempty"], &["read:sync", "read:async", "get", "settle"]],
        must_reach: &["gc:step", "gc:drain-nonempty", "clock:edge-1", "clock:edge", "clock:edge+1", "ttl:head-clause-checked"],
        quick_runs: 12_000,
        thorough_runs: 400_000,
        rule: "TTL-heavy histories (all four kinds on prefix-related topics in several contexts), clock moved to expiry edges -1/0/+1 ms, collector released one task at a time between reads; non-trivial = the collector did work and a probe ran; distinct = distinct trace hash",
    },
    PropSpec {
        id: "C09",
        engine: "e3",
        mix: &[],
        classes: &["ttl/", "read/unexpected-expired", "read/unexpected-ephemeral", "read/unexpected-collected", "get/unexpected-ephemeral", "get/unexpected-collected", "head/unexpected", "follow/missing"],
        nontrivial: &[&["gc:step", "gc:drain-nonempty"], &["settle"]],
        must_reach: &["gc:drain-nonempty", "clock:edge", "clock:edge+1", "ttl:head-clause-checked", "settle"],
        quick_runs: 12_000,
        thorough_runs: 400_000,
        rule: "TTL-heavy histories without imports into TTL topics, ephemeral appends with a tail follower attached, settle points after full collector drains; non-trivial = the collector did work and a settle ran; distinct = distinct trace hash",
    },
    PropSpec {
        id: "C02",
        engine: "e2",
        mix: &[],
        classes: &["append-only/", "follow/order", "follow/duplicate"],
        nontrivial: &[&["overlap:writers"], &["poll"]],
        must_reach: &["overlap:writers", "poll", "win:live", "site:append.id", "site:append.committed", "site:append.broadcast"],
        quick_runs: 12_000,
        thorough_runs: 600_000,
        rule: "2-4 writer threads (1-4 appends each, stored and ephemeral, several contexts) parked and released at the id-assigned / committed / broadcast points inside append, interleaved by the seeded chooser (uniform, burst, PCT, starvation) with resuming and full-scan pollers per scope and 0-2 followers; non-trivial = two writers were inside append at the same time and a poll ran; distinct = distinct hash of the decision sequence",
    },
    PropSpec {
        id: "C03",
        engine: "e2",
        mix: &[],
        classes: &["follow/gap", "follow/missing", "follow/duplicate", "follow/order", "follow/unexpected", "follow/fields", "follow/threshold", "follow/closed-early", "panic"],
        nontrivial: &[&["win:subscribed", "win:pre-scan", "win:scanning", "win:scanned", "win:done-pending", "win:live-start"]],
        must_reach: &["win:subscribed", "win:pre-scan", "win:scanning", "win:scanned", "win:done-pending", "win:live-start", "win:live", "threshold:seen"],
        quick_runs: 12_000,
        thorough_runs: 600_000,
        rule: "followers (start: beginning / last-id / tail; scope: all / one context; read capacity 1..100) started at a scheduler-chosen moment while 1-3 writers append stored and ephemeral frames; the reader's subscribe / scan / deliver / threshold / done / live-receive steps and the writers' append steps are interleaved by the seeded chooser; non-trivial = an append began while the reader was between subscribe and live; distinct = distinct decision-sequence hash",
    },
    PropSpec {
        id: "C11",
        engine: "e2",
        mix: &[],
        classes: &["follow/limit", "follow/tail-history", "follow/foreign-synthetic", "follow/unexpected-threshold", "follow/synthetic-stored", "follow/zombie-heartbeat", "follow/nofollow-open", "follow/gap", "follow/closed-early"],
        nontrivial: &[&["limit:reached", "lag:possible", "pulse:seen", "win:live"]],
        must_reach: &["limit:reached", "limit:all-history", "limit:split-history-live", "lag:possible", "lag:cut-off", "pulse:seen", "tick"],
        quick_runs: 12_000,
        thorough_runs: 600_000,
        rule: "followers with limit n relative to the history size (n-1, n, n+1), tail, last-id, context, heartbeat and plain non-follow reads; broadcast capacity 2..1024 and read capacity 1..100 as knobs, consumer and live task starved by policy so the follower falls behind; clock ticks fire heartbeats; non-trivial = a limit was reached, a lag became possible, a pulse was delivered or an append raced the live phase; distinct = distinct decision-sequence hash",
    },
    PropSpec {
        id: "C04",
        engine: "e1",
        mix: &[("e1", 4), ("e4", 1)],
        classes: &["crash/"],
        nontrivial: &[&["cut:inside-operation", "fault:blocking-pool-stalled"]],
        must_reach: &["image:kill", "image:power-drop", "image:torn", "cut:inside-operation", "cas:sized", "cas:stream", "frame:>8KiB", "remove", "import", "gc:step", "flush", "compact", "reopen-in-recording", "fault:blocking-pool-stalled"],
        quick_runs: 480,
        thorough_runs: 24_000,
        rule: "per sampled workload (3-14 sequential operations: append with small / >8KiB / 100KiB frames, both CAS write paths, remove, import, head/time TTL with single collector steps, forced flush, major compaction on the workload thread, reopen inside the recording) EVERY prefix of the recorded file-operation log is a cut point; per cut a process-kill image plus, where unsynced bytes exist, a power-loss image with all unsynced bytes dropped and 1-2 torn variants; evaluations = workloads, images counted in probes.images; non-trivial = at least one cut fell strictly inside an operation; distinct = distinct workload trace hash",
    },
    PropSpec {
        id: "C13",
        engine: "e4",
        mix: &[],
        classes: &["http/", "read/", "get/", "head/", "import/", "append/id-not-increasing", "cas/empty-post-status", "cas/hash", "follow/threshold-missing", "ctx/leak:http"],
        nontrivial: &[&["http:append-ok"], &["http:400", "http:404", "http:store-rejected", "http:unknown-route", "http:client-disconnect"], &["http:cat-ndjson", "http:cat-sse", "http:head"]],
        must_reach: &["http:append-ok", "http:400", "http:404", "http:store-rejected", "http:unknown-route", "http:client-disconnect", "http:fragmented", "http:backpressure", "http:chunked-body", "http:body>8KiB", "http:bodyless-append", "http:cat-ndjson", "http:cat-sse", "http:head", "http:keep-alive", "http:pipelined", "cas:post", "cas:get", "cas:empty-post", "import:ok", "import:rejected", "follow:tail", "follow:history", "follow:head", "follow:live-frames", "remove:live"],
        quick_runs: 1200,
        thorough_runs: 60_000,
        rule: "request sequences (5-45 requests over every route, valid and invalid ids / contexts / TTLs / option strings / xs-meta payloads / bodies, NDJSON and SSE, follow streams kept open across later requests) sent to the real hyper server over in-memory pipes of 1..65536 bytes, fragmented at seeded offsets, chunked or fixed-length, some cut by a client disconnect; after every request the response and the store are compared with the reference model and with the Store API; non-trivial = a successful append, a rejected/unknown/cut request and a read all happened; distinct = distinct trace hash",
    },
    PropSpec {
        id: "C06",
        engine: "e4",
        mix: &[("e4", 2), ("e2", 1), ("e3", 1), ("e5", 2)],
        classes: &["ctx/leak", "read/unexpected-scope", "head/wrong-topic"],
        nontrivial: &[&["http:cat-ndjson", "http:cat-sse", "http:head", "follow:live-frames", "read:sync", "win:live"]],
        must_reach: &["http:cat-ndjson", "http:head", "follow:head", "follow:tail", "follow:live-frames", "read:sync", "settle", "win:live", "ctx:registered"],
        quick_runs: 2000,
        thorough_runs: 200_000,
        rule: "the same topics are used in every context (zero, registered, numerically adjacent, never registered); context-scoped access paths - Store read_sync/read/head (engine E3), followers racing writers (E2), HTTP GET /?context-id=, GET /head/{topic}?context= and GET /head/{topic}?follow&context= with appends into other contexts while the stream is open (E4) - must never deliver a frame of another context; non-trivial = a context-scoped read or stream delivered something; distinct = distinct trace hash",
    },
    PropSpec {
        id: "C10",
        engine: "e4",
        mix: &[("e4", 10), ("e1", 1), ("e5", 6)],
        classes: &["cas/", "crash/cas"],
        nontrivial: &[&["http:append-ok", "cas:post", "image:kill"]],
        must_reach: &["http:append-ok", "http:chunked-body", "http:body>8KiB", "http:bodyless-append", "http:client-disconnect", "cas:post", "cas:get", "cas:empty-post", "cas:get-unknown", "image:kill", "cas:sized", "cas:stream"],
        quick_runs: 560,
        thorough_runs: 50_000,
        rule: "byte strings (empty, 1 byte, non-UTF-8, 8191/8192/8193 bytes, 100 KB) written through POST /{topic} (fixed-length and chunked bodies split over many transport writes, some cut by a disconnect) and POST /cas, read back through GET /cas and the Store; a monitor inside append checks at the instant a frame with a hash becomes observable that its content is already retrievable; one run in six is an E1 crash-image workload (content of every visible frame after a process kill); non-trivial = content was written; distinct = distinct trace hash",
    },
    PropSpec {
        id: "C20",
        engine: "e20",
        mix: &[("e20", 5), ("e2", 1)],
        classes: &["import/", "http/dropped-connection", "append/rejected-valid"],
        nontrivial: &[&["import:compared"], &["export:multi-context", "import:duplicate", "import:registrations-last"]],
        must_reach: &["import:compared", "export:multi-context", "import:duplicate", "import:registrations-last", "import:rejected", "remove:live", "gc:drain-nonempty", "ctx:append-raced-reimport"],
        quick_runs: 1500,
        thorough_runs: 100_000,
        rule: "a source store is built by a generated history (several contexts, all persistent TTL kinds, removes, imports, collector drains, shared content), settled and exported (all frames + referenced content); everything is imported into an empty store through POST /cas and POST /import in a seeded permutation with duplicates (context registrations optionally after the frames that use them), plus a NUL-topic frame and malformed JSON that must be refused whole; source and target must then have equal observation sets (ids, order, fields, per-context streams, heads, by-id lookups, content bytes) and equal usable contexts, immediately and after reopening the target; one run in six instead imports a stored registration again, unchanged, on a thread of its own while writer threads append into that context (E2; the instant before insert_frame's commit is a step boundary): no append may be refused at any moment; non-trivial = a comparison ran on a store with several contexts or with duplicate/late-registration imports; distinct = distinct trace hash",
    },
    PropSpec {
        id: "C14",
        engine: "e5",
        mix: &[],
        classes: &["dispatch/", "ctx/leak:handler-dispatch", "lifecycle/processed-after-replaced", "lifecycle/spurious-stop", "service/panic"],
        nontrivial: &[&["dispatch:counter-checked"], &["handler:burst", "handler:unregistered", "handler:closure-error"]],
        must_reach: &["handler:registered", "handler:burst", "dispatch:counter-checked", "output:checked", "site:engine.idle"],
        quick_runs: 4000,
        thorough_runs: 200_000,
        rule: "one to several handlers (resume head / tail / after-id, optional pulse) over 1-3 contexts; the operator appends triggers, bursts (appends offered to the scheduler as steps of their own, so they land while engine worker threads are busy or starved) and foreign frames; every invocation bumps a counter kept in the handler's environment and trigger frames are answered with the counter and the id seen; oracle: counter difference between two answered triggers = number of frames of the context between them (own outputs excluded), no invocation for own output or another context, every trigger appended while active is answered; non-trivial = a counter comparison happened and a burst / unregister / closure error occurred; distinct = distinct decision-sequence hash",
    },
    PropSpec {
        id: "C15",
        engine: "e5",
        mix: &[],
        classes: &["output/", "ctx/leak:handler-output", "dispatch/missed-trigger", "cas/missing-when-visible", "service/panic"],
        nontrivial: &[&["output:checked"]],
        must_reach: &["handler:registered", "output:checked", "handler:closure-error", "lifecycle:error-reported"],
        quick_runs: 4000,
        thorough_runs: 200_000,
        rule: "handler scripts generated from a grammar (0-3 explicit .append with/without --meta (incl. a spoofed handler_id), --ttl, --context <other>; return value of every nu type or nothing; custom suffix / ttl; an error placed before / between / after the appends, taken when the trigger says so); oracle per trigger: explicit appends in call order then the return frame on <name><suffix> with the configured ttl, all stamped with handler and trigger id, all in the handler's context, content as rendered, nothing at all for a failing invocation; non-trivial = at least one invocation's output was checked; distinct = distinct decision-sequence hash",
    },
    PropSpec {
        id: "C16",
        engine: "e5",
        mix: &[],
        classes: &["lifecycle/", "service/panic"],
        nontrivial: &[&["handler:registered"], &["handler:unregistered", "handler:closure-error", "handler:invalid-script", "handler:probe-after-registered"]],
        must_reach: &["handler:registered", "handler:unregistered", "handler:closure-error", "handler:invalid-script", "lifecycle:invalid-reported", "lifecycle:error-reported", "handler:probe-after-registered", "handler:self-unregister", "lifecycle:replacement-checked"],
        quick_runs: 4000,
        thorough_runs: 200_000,
        rule: "register / re-register / unregister / failing-trigger / invalid-script events on 2 names x 1-3 contexts; in some runs the handler's start-up is split at the points before it subscribes and before it announces, and a watching client appends a trigger the moment <name>.registered is visible; oracle: lifecycle frames per instance (one registered or one unregistered+error; at most one unregistered; nothing after it), no trigger answered by two instances of a name, every trigger appended after .registered was visible is processed; non-trivial = a registration plus a stop / invalid script / watched start happened; distinct = distinct decision-sequence hash",
    },
    PropSpec {
        id: "C18",
        engine: "e5",
        mix: &[],
        classes: &["gen/", "service/panic"],
        nontrivial: &[&["gen:lifecycle-checked", "gen:refusal-checked"]],
        must_reach: &["gen:spawned", "gen:refused", "gen:lifecycle-checked", "gen:refusal-checked", "gen:restarted-after-stop", "gen:send", "gen:duplex-checked", "gen:duplex-second-lifecycle", "site:gen.begin", "site:gen.input"],
        quick_runs: 3000,
        thorough_runs: 150_000,
        rule: "generator expressions producing 0..k strings as a single value, a list value and a stream, duplex echo generators, spawns with missing content / for a running name / for the same name in another context, .send frames interleaved with other traffic, simulated seconds so that several lifecycles happen; generator worker threads are scheduled actors (duplex input is polled cooperatively); oracle per spawn on the append log: (start recv* stop)+ with the produced strings in order, one spawn.error for a refused spawn, restart after a stop, sends echoed exactly once in order; non-trivial = a lifecycle or refusal was checked; distinct = distinct decision-sequence hash",
    },
    PropSpec {
        id: "C19",
        engine: "e5",
        mix: &[],
        classes: &["cmd/", "restart/command-lost", "restart/call-re-executed", "service/panic"],
        nontrivial: &[&["cmd:call-checked"]],
        must_reach: &["cmd:defined", "cmd:invalid-define", "cmd:invalid-reported", "cmd:call", "cmd:call-undefined", "cmd:overlapping-calls", "cmd:call-checked", "cmd:error-checked", "site:cmd.begin"],
        quick_runs: 3000,
        thorough_runs: 150_000,
        rule: "command definitions yielding 0..3 values of mixed types, explicit .append inside, a runtime error at a chosen output position, custom suffix / ttl, invalid definitions; define / redefine / call sequences on 2 names x 1-3 contexts, bursts of 2-4 overlapping calls whose blocking closures are scheduled actors; oracle per call on the append log: recv* in order then exactly one complete, or exactly one error; stamps = latest valid definition of the caller's context + call id; no environment leak between calls; no call executed twice; non-trivial = a call was checked; distinct = distinct decision-sequence hash",
    },
    PropSpec {
        id: "C17",
        engine: "e5",
        mix: &[],
        classes: &["restart/", "cmd/wrong-definition", "cmd/undefined-executed", "cmd/executed-twice", "service/panic"],
        nontrivial: &[&["restart:checked"], &["restart:handler-restored", "restart:handler-stays-stopped", "restart:generator-restored", "cmd:call-checked"]],
        must_reach: &["restart:clean", "restart:crash", "restart:crash-after-unregister", "restart:checked", "restart:handler-restored", "restart:handler-stays-stopped", "restart:generator-restored", "cmd:call-checked"],
        quick_runs: 2400,
        thorough_runs: 120_000,
        rule: "histories of handler register / unregister / replace / closure error / invalid script, generator spawn / refused spawn, command define / redefine / call over 2 names x 1-3 contexts (the same names in several contexts), with one or more restarts: a clean stop at quiescence or a crash a few scheduler steps into whatever is pending (byte copy of the directory, new runtime, new serve loops, the old incarnation's threads abandoned); after each restart probes (triggers, calls, a simulated second for generators); oracle: exactly the handlers / generators the stream showed as active are started again with the same ids, nothing stopped / replaced / refused comes back, historical triggers and calls are not executed again, calls are answered by the latest valid definition of their context; non-trivial = a restart was checked and something was restored or correctly left stopped; distinct = distinct decision-sequence hash",
    },
];

pub fn spec(prop: &str) -> Option<&'static PropSpec> {
    PROPS.iter().find(|p| p.id == prop)
}

/// The first property whose class list covers `class` (preferring one that runs on `engine`).
pub fn owner_of(class: &str, engine: &str) -> Option<&'static str> {
    let all = PROPS;
    all.iter()
        .find(|s| belongs(s, class) && (s.engine == engine || s.mix.iter().any(|(e, _)| *e == engine)))
        .or_else(|| all.iter().find(|s| belongs(s, class)))
        .map(|s| s.id)
}

pub fn belongs(spec: &PropSpec, class: &str) -> bool {
    spec.classes.iter().any(|c| class.starts_with(c))
}

pub fn is_nontrivial(spec: &PropSpec, probes: &BTreeMap<String, u64>) -> bool {
    spec.nontrivial
        .iter()
        .all(|group| group.iter().any(|p| probes.get(*p).copied().unwrap_or(0) > 0))
}

pub fn engine_for(spec: &PropSpec, index: u64) -> &'static str {
    if spec.mix.is_empty() {
        return spec.engine;
    }
    let total: u64 = spec.mix.iter().map(|(_, w)| *w as u64).sum();
    let mut r = index % total.max(1);
    for (e, w) in spec.mix {
        if r < *w as u64 {
            return e;
        }
        r -= *w as u64;
    }
    spec.engine
}

pub fn gen_plan(spec: &PropSpec, engine: &str, thorough: bool, seed: u64) -> Value {
    let mut v = gen_plan_inner(spec, engine, thorough, seed);
    if let Some(m) = v.as_object_mut() {
        m.insert("engine".to_string(), Value::String(engine.to_string()));
    }
    v
}

fn gen_plan_inner(spec: &PropSpec, engine: &str, thorough: bool, seed: u64) -> Value {
    match engine {
        "e3" => {
            let cfg = crate::e3::GenCfg::for_prop(spec.id, thorough);
            serde_json::to_value(crate::e3::generate(seed, &cfg)).unwrap()
        }
        "e1" => serde_json::to_value(crate::e1::generate(seed, spec.id, thorough)).unwrap(),
        "e4" => serde_json::to_value(crate::e4::generate(seed, spec.id, thorough)).unwrap(),
        "e5" => serde_json::to_value(crate::e5::generate(seed, spec.id, thorough)).unwrap(),
        "e20" => serde_json::to_value(crate::e4::generate20(seed, thorough)).unwrap(),
        "e2" => serde_json::to_value(crate::e2::generate(seed, spec.id, thorough)).unwrap(),
        _ => Value::Null,
    }
}

pub fn exec_plan(engine: &str, plan: &Value, tag: &str) -> RunResult {
    let engine = plan.get("engine").and_then(|e| e.as_str()).unwrap_or(engine);
    match engine {
        "e3" => crate::e3::exec_value(plan, tag),
        "e1" => crate::e1::exec_value(plan, tag),
        "e4" => crate::e4::exec_value(plan, tag),
        "e20" => crate::e4::exec_value20(plan, tag),
        "e2" => {
            let (mut r, choices) = crate::e2::exec_value(plan, tag);
            r.choices = choices;
            r
        }
        "e5" => {
            let (mut r, choices) = crate::e5::exec_value(plan, tag);
            r.choices = choices;
            r
        }
        _ => RunResult {
            violation: None,
            harness: Some(format!("unknown engine {}", engine)),
            probes: BTreeMap::new(),
            decisions: 0,
            sim_ms: 0,
            trace: vec![],
            choices: vec![],
            plan_patch: None,
        },
    }
}
