//! The only source of randomness in the simulator: splitmix64-seeded xoshiro256**.
//! Every decision (workload, knobs, schedule, id entropy) is drawn from streams
//! derived from one integer.

#[derive(Clone, Debug)]
pub struct Rng {
    s: [u64; 4],
}

pub fn splitmix64(x: &mut u64) -> u64 {
    *x = x.wrapping_add(0x9E37_79B9_7F4A_7C15);
    let mut z = *x;
    z = (z ^ (z >> 30)).wrapping_mul(0xBF58_476D_1CE4_E5B9);
    z = (z ^ (z >> 27)).wrapping_mul(0x94D0_49BB_1331_11EB);
    z ^ (z >> 31)
}

/// Derive the seed of run `index` from the batch seed.
pub fn derive(seed: u64, index: u64) -> u64 {
    let mut x = seed ^ index.wrapping_mul(0xD6E8_FEB8_6659_FD93);
    let a = splitmix64(&mut x);
    let b = splitmix64(&mut x);
    a ^ b.rotate_left(17)
}

impl Rng {
    pub fn new(seed: u64) -> Self {
        let mut x = seed;
        let s = [
            splitmix64(&mut x),
            splitmix64(&mut x),
            splitmix64(&mut x),
            splitmix64(&mut x),
        ];
        Rng { s }
    }

    /// Independent sub-stream (for a named purpose) that does not perturb `self`'s sequence
    /// beyond one draw.
    pub fn fork(&mut self) -> Rng {
        Rng::new(self.next_u64())
    }

    pub fn next_u64(&mut self) -> u64 {
        let result = self.s[1].wrapping_mul(5).rotate_left(7).wrapping_mul(9);
        let t = self.s[1] << 17;
        self.s[2] ^= self.s[0];
        self.s[3] ^= self.s[1];
        self.s[1] ^= self.s[2];
        self.s[0] ^= self.s[3];
        self.s[2] ^= t;
        self.s[3] = self.s[3].rotate_left(45);
        result
    }

    pub fn next_u32(&mut self) -> u32 {
        (self.next_u64() >> 32) as u32
    }

    /// uniform in [0, n)
    pub fn below(&mut self, n: usize) -> usize {
        if n <= 1 {
            return 0;
        }
        (self.next_u64() % n as u64) as usize
    }

    /// uniform in [lo, hi]
    pub fn range(&mut self, lo: usize, hi: usize) -> usize {
        lo + self.below(hi - lo + 1)
    }

    pub fn chance(&mut self, percent: u32) -> bool {
        (self.next_u64() % 100) < percent as u64
    }

    pub fn pick<'a, T>(&mut self, v: &'a [T]) -> &'a T {
        &v[self.below(v.len())]
    }

    /// weighted index
    pub fn weighted(&mut self, w: &[u32]) -> usize {
        let total: u64 = w.iter().map(|x| *x as u64).sum();
        if total == 0 {
            return 0;
        }
        let mut r = self.next_u64() % total;
        for (i, x) in w.iter().enumerate() {
            if r < *x as u64 {
                return i;
            }
            r -= *x as u64;
        }
        w.len() - 1
    }

    pub fn shuffle<T>(&mut self, v: &mut [T]) {
        for i in (1..v.len()).rev() {
            let j = self.below(i + 1);
            v.swap(i, j);
        }
    }
}

pub fn fnv1a(data: &[u8]) -> u64 {
    let mut h: u64 = 0xcbf29ce484222325;
    for b in data {
        h ^= *b as u64;
        h = h.wrapping_mul(0x100000001b3);
    }
    h
}
