//! Simulated transport for the real hyper server: one end of `tokio::io::duplex` is served by
//! xs (`api::verif_serve_io`), the other end is driven byte by byte from the scheduler thread
//! with non-blocking reads and writes. No sockets, no sleeps.

use std::collections::BTreeMap;

use futures::FutureExt;
use tokio::io::{AsyncReadExt, AsyncWriteExt, DuplexStream};
use tokio::task::JoinHandle;

use xs::store::Store;

pub struct Conn {
    pub client: Option<DuplexStream>,
    pub task: Option<JoinHandle<Result<(), String>>>,
    pub inbuf: Vec<u8>,
    pub eof: bool,
    pub task_result: Option<Result<(), String>>,
}

impl Conn {
    pub fn open(rt: &tokio::runtime::Runtime, store: &Store, engine: &xs::nu::Engine, pipe: usize) -> Conn {
        let (client, server) = tokio::io::duplex(pipe.max(1));
        let store = store.clone();
        let engine = engine.clone();
        let task = rt.spawn(async move { xs::api::verif_serve_io(server, store, engine).await });
        Conn {
            client: Some(client),
            task: Some(task),
            inbuf: Vec::new(),
            eof: false,
            task_result: None,
        }
    }

    /// Write as much as the pipe takes right now; 0 = would block.
    pub fn try_write(&mut self, rt: &tokio::runtime::Runtime, data: &[u8]) -> std::io::Result<usize> {
        let Some(c) = self.client.as_mut() else {
            return Err(std::io::Error::new(std::io::ErrorKind::NotConnected, "client closed"));
        };
        let _g = rt.enter();
        match c.write(data).now_or_never() {
            Some(Ok(n)) => Ok(n),
            Some(Err(e)) => Err(e),
            None => Ok(0),
        }
    }

    /// Read what is available right now into `inbuf`. Returns bytes read; sets `eof`.
    pub fn try_read(&mut self, rt: &tokio::runtime::Runtime) -> usize {
        let Some(c) = self.client.as_mut() else {
            return 0;
        };
        let _g = rt.enter();
        let mut total = 0;
        let mut tmp = [0u8; 16384];
        loop {
            match c.read(&mut tmp).now_or_never() {
                Some(Ok(0)) => {
                    self.eof = true;
                    break;
                }
                Some(Ok(n)) => {
                    self.inbuf.extend_from_slice(&tmp[..n]);
                    total += n;
                }
                Some(Err(_)) => {
                    self.eof = true;
                    break;
                }
                None => break,
            }
        }
        total
    }

    pub fn shutdown_write(&mut self, rt: &tokio::runtime::Runtime) {
        if let Some(c) = self.client.as_mut() {
            let _g = rt.enter();
            let _ = c.shutdown().now_or_never();
        }
    }

    pub fn close(&mut self) {
        self.client = None;
    }

    /// Has the server's connection task ended? (panic = Err("panic: ..."))
    pub fn poll_task(&mut self, rt: &tokio::runtime::Runtime) -> Option<&Result<(), String>> {
        if self.task_result.is_none() {
            if let Some(t) = &self.task {
                if t.is_finished() {
                    let t = self.task.take().unwrap();
                    let r = rt.block_on(t);
                    self.task_result = Some(match r {
                        Ok(inner) => inner,
                        Err(e) => {
                            if e.is_panic() {
                                let p = e.into_panic();
                                Err(format!("panic: {}", crate::world::panic_msg(&p)))
                            } else {
                                Err("cancelled".to_string())
                            }
                        }
                    });
                }
            }
        }
        self.task_result.as_ref()
    }
}

pub fn build_request(method: &str, target: &str, headers: &[(String, Vec<u8>)], body: Option<&[u8]>, chunked: bool, chunk: usize) -> Vec<u8> {
    let mut out = Vec::new();
    out.extend_from_slice(format!("{} {} HTTP/1.1\r\nhost: xs\r\n", method, target).as_bytes());
    for (k, v) in headers {
        out.extend_from_slice(k.as_bytes());
        out.extend_from_slice(b": ");
        out.extend_from_slice(v);
        out.extend_from_slice(b"\r\n");
    }
    match body {
        None => {
            out.extend_from_slice(b"\r\n");
        }
        Some(b) => {
            if chunked {
                out.extend_from_slice(b"transfer-encoding: chunked\r\n\r\n");
                let step = chunk.max(1);
                let mut i = 0;
                while i < b.len() {
                    let end = (i + step).min(b.len());
                    out.extend_from_slice(format!("{:x}\r\n", end - i).as_bytes());
                    out.extend_from_slice(&b[i..end]);
                    out.extend_from_slice(b"\r\n");
                    i = end;
                }
                out.extend_from_slice(b"0\r\n\r\n");
            } else {
                out.extend_from_slice(format!("content-length: {}\r\n\r\n", b.len()).as_bytes());
                out.extend_from_slice(b);
            }
        }
    }
    out
}

#[derive(Debug, Clone)]
pub struct Head {
    pub status: u16,
    pub headers: BTreeMap<String, String>,
    pub head_len: usize,
}

pub fn parse_head(buf: &[u8]) -> Option<Head> {
    let pos = buf.windows(4).position(|w| w == b"\r\n\r\n")?;
    let text = String::from_utf8_lossy(&buf[..pos]).to_string();
    let mut lines = text.split("\r\n");
    let status_line = lines.next()?;
    let status: u16 = status_line.split(' ').nth(1)?.parse().ok()?;
    let mut headers = BTreeMap::new();
    for l in lines {
        if let Some((k, v)) = l.split_once(':') {
            headers.insert(k.trim().to_ascii_lowercase(), v.trim().to_string());
        }
    }
    Some(Head {
        status,
        headers,
        head_len: pos + 4,
    })
}

/// Decode the chunks that are completely available. Returns (payload, consumed bytes, saw the final chunk).
pub fn decode_chunks(buf: &[u8]) -> (Vec<u8>, usize, bool) {
    let mut out = Vec::new();
    let mut i = 0;
    loop {
        let Some(nl) = buf[i..].windows(2).position(|w| w == b"\r\n") else {
            return (out, i, false);
        };
        let size_str = String::from_utf8_lossy(&buf[i..i + nl]).to_string();
        let size = match usize::from_str_radix(size_str.split(';').next().unwrap_or("").trim(), 16) {
            Ok(s) => s,
            Err(_) => return (out, i, false),
        };
        let data_start = i + nl + 2;
        if size == 0 {
            // final chunk: expect trailing CRLF
            if buf.len() >= data_start + 2 {
                return (out, data_start + 2, true);
            }
            return (out, i, false);
        }
        if buf.len() < data_start + size + 2 {
            return (out, i, false);
        }
        out.extend_from_slice(&buf[data_start..data_start + size]);
        i = data_start + size + 2;
    }
}

#[derive(Debug, Clone)]
pub struct Response {
    pub status: u16,
    pub headers: BTreeMap<String, String>,
    pub body: Vec<u8>,
    pub consumed: usize,
}

/// A complete (non-streaming) response, if the buffer holds one.
pub fn parse_response(buf: &[u8], eof: bool, head_only: bool) -> Option<Response> {
    let head = parse_head(buf)?;
    let rest = &buf[head.head_len..];
    if head_only || head.status == 204 || head.status == 304 {
        return Some(Response {
            status: head.status,
            headers: head.headers,
            body: vec![],
            consumed: head.head_len,
        });
    }
    if let Some(cl) = head.headers.get("content-length") {
        let n: usize = cl.parse().ok()?;
        if rest.len() >= n {
            return Some(Response {
                status: head.status,
                headers: head.headers,
                body: rest[..n].to_vec(),
                consumed: head.head_len + n,
            });
        }
        return None;
    }
    if head.headers.get("transfer-encoding").map(|v| v.contains("chunked")).unwrap_or(false) {
        let (body, used, done) = decode_chunks(rest);
        if done {
            return Some(Response {
                status: head.status,
                headers: head.headers,
                body,
                consumed: head.head_len + used,
            });
        }
        return None;
    }
    // neither: body runs until the connection closes
    if eof {
        return Some(Response {
            status: head.status,
            headers: head.headers.clone(),
            body: rest.to_vec(),
            consumed: buf.len(),
        });
    }
    None
}
