//! One simulated world: a tmpfs directory, a stepped paused tokio runtime, the controller,
//! and the decision loop. The scheduler thread is the thread that owns the `World`.

use std::collections::BTreeMap;
use std::path::{Path, PathBuf};
use std::sync::Arc;
use std::time::Duration;

use xs::store::Store;

use crate::ctrl::{self, Enabled, EnabledKind, SimCtrl};
use crate::rng::Rng;

#[derive(Debug, Clone)]
pub struct Violation {
    pub class: String,
    pub text: String,
}

impl Violation {
    pub fn new(class: impl Into<String>, text: impl Into<String>) -> Self {
        Violation {
            class: class.into(),
            text: text.into(),
        }
    }
}

/// Harness errors (exit code 2) are never verdicts.
#[derive(Debug)]
pub enum Stop {
    Violation(Violation),
    Harness(String),
}

impl From<Violation> for Stop {
    fn from(v: Violation) -> Self {
        Stop::Violation(v)
    }
}

pub type R<T> = Result<T, Stop>;

pub fn harness<T>(msg: impl Into<String>) -> R<T> {
    Err(Stop::Harness(msg.into()))
}

pub fn violation<T>(class: impl Into<String>, text: impl Into<String>) -> R<T> {
    Err(Stop::Violation(Violation::new(class, text)))
}

#[derive(Clone, Debug)]
pub enum Policy {
    Uniform,
    /// keep running the same actor with the given percent probability
    Burst(u32),
    /// random static priorities per actor, `changes` priority change points
    Pct { changes: usize, horizon: usize },
    /// never pick labels starting with this prefix while anything else is enabled
    Starve(String),
}

/// Decides every scheduling choice: from an explicit list first (replay / minimised
/// traces), then from the run's PRNG under a policy.
pub struct Chooser {
    pub explicit: Vec<String>,
    pub pos: usize,
    pub rng: Rng,
    pub policy: Policy,
    pub record: Vec<String>,
    /// after the explicit list is exhausted take the first enabled option (replays, minimised traces)
    pub first_after_explicit: bool,
    last_actor: Option<String>,
    prio: BTreeMap<String, u64>,
    change_points: Vec<usize>,
    step: usize,
}

fn actor_of(label: &str) -> &str {
    label.split('@').next().unwrap_or(label)
}

impl Chooser {
    pub fn new(seed: u64, policy: Policy, explicit: Vec<String>) -> Self {
        let mut rng = Rng::new(seed);
        let mut change_points = Vec::new();
        if let Policy::Pct { changes, horizon } = &policy {
            for _ in 0..*changes {
                change_points.push(rng.below((*horizon).max(1)));
            }
        }
        Chooser {
            explicit,
            pos: 0,
            rng,
            policy,
            record: Vec::new(),
            first_after_explicit: false,
            last_actor: None,
            prio: BTreeMap::new(),
            change_points,
            step: 0,
        }
    }

    pub fn choose(&mut self, labels: &[String]) -> usize {
        assert!(!labels.is_empty());
        self.step += 1;
        let idx = if self.pos < self.explicit.len() {
            let want = self.explicit[self.pos].clone();
            self.pos += 1;
            labels.iter().position(|l| *l == want).unwrap_or(0)
        } else if self.first_after_explicit {
            0
        } else {
            self.by_policy(labels)
        };
        self.last_actor = Some(actor_of(&labels[idx]).to_string());
        self.record.push(labels[idx].clone());
        idx
    }

    fn by_policy(&mut self, labels: &[String]) -> usize {
        match self.policy.clone() {
            Policy::Uniform => self.rng.below(labels.len()),
            Policy::Burst(p) => {
                if let Some(last) = &self.last_actor {
                    if let Some(i) = labels.iter().position(|l| actor_of(l) == last) {
                        if self.rng.chance(p) {
                            return i;
                        }
                    }
                }
                self.rng.below(labels.len())
            }
            Policy::Pct { .. } => {
                for l in labels {
                    let a = actor_of(l).to_string();
                    if !self.prio.contains_key(&a) {
                        let p = 1000 + (self.rng.next_u64() % 1_000_000);
                        self.prio.insert(a, p);
                    }
                }
                let best = labels
                    .iter()
                    .enumerate()
                    .max_by_key(|(_, l)| self.prio[actor_of(l)])
                    .map(|(i, _)| i)
                    .unwrap();
                if self.change_points.contains(&self.step) {
                    // demote the actor that would have run
                    let a = actor_of(&labels[best]).to_string();
                    let low = self.change_points.iter().position(|c| *c == self.step).unwrap() as u64;
                    self.prio.insert(a, low);
                }
                labels
                    .iter()
                    .enumerate()
                    .max_by_key(|(_, l)| self.prio[actor_of(l)])
                    .map(|(i, _)| i)
                    .unwrap()
            }
            Policy::Starve(prefix) => {
                let others: Vec<usize> = labels
                    .iter()
                    .enumerate()
                    .filter(|(_, l)| !l.starts_with(&prefix))
                    .map(|(i, _)| i)
                    .collect();
                if others.is_empty() {
                    self.rng.below(labels.len())
                } else {
                    others[self.rng.below(others.len())]
                }
            }
        }
    }
}

pub enum Picked {
    /// an xs actor / task / tokio step was run
    Ran(String),
    /// the caller's extra option with this index was chosen
    Extra(usize),
    /// nothing enabled
    Nothing,
}

/// Open while the scheduler (or the stepping future) has the floor; closed while a tokio task is
/// being polled. Fresh blocking-pool threads wait for it before running their first job.
pub static BLOCKING_GATE: std::sync::atomic::AtomicBool = std::sync::atomic::AtomicBool::new(true);

pub struct World {
    pub ctrl: Arc<SimCtrl>,
    pub rt: Option<tokio::runtime::Runtime>,
    pub dir: PathBuf,
    pub decisions: u64,
    pub sim_ms: u64,
    pub probes: BTreeMap<String, u64>,
    pub trace: Vec<String>,
    pub keep_trace: bool,
    /// fault: the blocking pool is stalled (jobs wait at the gate) until this is cleared
    pub hold_blocking: bool,
}

pub fn scratch_root() -> PathBuf {
    let base = std::env::var("XS_SIM_SCRATCH").unwrap_or_else(|_| "/dev/shm".to_string());
    PathBuf::from(base).join(format!("xs-sim-{}", std::process::id()))
}

impl World {
    pub fn new(run_tag: &str, id_seed: u64, knobs: &[(&'static str, usize)], pass_sites: &[&'static str]) -> World {
        let ctrl = ctrl::global();
        ctrl.begin_run(id_seed, knobs, pass_sites);
        static RUN_NO: std::sync::atomic::AtomicU64 = std::sync::atomic::AtomicU64::new(0);
        let n = RUN_NO.fetch_add(1, std::sync::atomic::Ordering::Relaxed);
        let dir = scratch_root().join(format!("{}-{}", run_tag, n));
        let _ = std::fs::remove_dir_all(&dir);
        std::fs::create_dir_all(&dir).expect("create scratch dir");
        let rt = Self::build_runtime();
        World {
            ctrl,
            rt: Some(rt),
            dir,
            decisions: 0,
            sim_ms: 0,
            probes: BTreeMap::new(),
            trace: Vec::new(),
            keep_trace: true,
            hold_blocking: false,
        }
    }

    pub fn build_runtime() -> tokio::runtime::Runtime {
        // event_interval(1): the stepping future regains control after every single task poll.
        // Blocking-pool jobs (cacache / tokio::fs file IO) are made deterministic by a gate:
        // every job gets a fresh thread (keep-alive 1 ns) whose start waits until the stepping
        // future has the floor again, so the task that spawned the job always sees it pending,
        // and the stepping future then waits for the pool to drain before any other task runs.
        tokio::runtime::Builder::new_current_thread()
            .enable_all()
            .event_interval(1)
            .global_queue_interval(1)
            .thread_keep_alive(Duration::from_nanos(1))
            .on_thread_start(|| {
                // spin briefly, then back off: on an oversubscribed machine a pure spin starves
                // the very thread it is waiting for
                let mut spins = 0u32;
                while !BLOCKING_GATE.load(std::sync::atomic::Ordering::Acquire) {
                    spins += 1;
                    if spins < 200 {
                        std::thread::yield_now();
                    } else {
                        std::thread::sleep(Duration::from_micros(50));
                    }
                }
            })
            .start_paused(true)
            .build()
            .expect("runtime")
    }

    /// Kill the current incarnation's runtime (tasks are dropped) and start a fresh one.
    pub fn replace_runtime(&mut self) {
        if let Some(old) = self.rt.take() {
            old.shutdown_background();
        }
        self.rt = Some(Self::build_runtime());
    }

    pub fn rt(&self) -> &tokio::runtime::Runtime {
        self.rt.as_ref().unwrap()
    }

    pub fn probe(&mut self, name: &str) {
        *self.probes.entry(name.to_string()).or_insert(0) += 1;
    }

    pub fn probe_n(&mut self, name: &str, n: u64) {
        *self.probes.entry(name.to_string()).or_insert(0) += n;
    }

    pub fn log(&mut self, s: impl Into<String>) {
        if self.keep_trace {
            self.trace.push(s.into());
        }
    }

    /// Open a store on `path`; the gc worker arrives and parks before this returns.
    pub fn open_store(&mut self, path: &Path) -> R<Store> {
        let p = path.to_path_buf();
        let store = match std::panic::catch_unwind(std::panic::AssertUnwindSafe(|| Store::new(p))) {
            Ok(s) => s,
            Err(e) => {
                let msg = panic_msg(&e);
                return violation("reopen-failed", format!("Store::new panicked: {}", msg));
            }
        };
        self.wait()?;
        Ok(store)
    }

    /// Cleanly stop a store: the gc worker exits, fjall's threads stop when the last clone drops.
    pub fn close_store(&mut self, store: Store, delete: Option<PathBuf>) -> R<()> {
        store.verif_shutdown();
        // run the gc actor until it is gone (it may have queued tasks before the shutdown)
        let mut guard = 0;
        loop {
            self.wait()?;
            let en: Vec<Enabled> = self
                .ctrl
                .enabled()
                .into_iter()
                .filter(|e| e.actor_kind == "gc")
                .collect();
            if en.is_empty() {
                break;
            }
            for e in en {
                if let EnabledKind::Os(i) = e.kind {
                    self.ctrl.release_os(i).map_err(Stop::Harness)?;
                }
            }
            guard += 1;
            if guard > 100_000 {
                return harness("close_store: gc actor does not terminate");
            }
        }
        // fjall's Keyspace drop waits for its monitor thread (sleeps 250 ms): do it off-thread,
        // and delete the directory only afterwards
        std::thread::spawn(move || {
            drop(store);
            if let Some(p) = delete {
                let _ = std::fs::remove_dir_all(p);
            }
        });
        Ok(())
    }

    /// End the run (all hooks become pass-through, parked actors run free) and close the store.
    pub fn close_store_after_end(&mut self, store: Store) -> R<()> {
        self.ctrl.end_run();
        store.verif_shutdown();
        std::thread::spawn(move || drop(store));
        Ok(())
    }

    pub fn wait(&self) -> R<()> {
        self.ctrl.wait_quiescent().map_err(Stop::Harness)?;
        // a command call that has just ended on a blocking-pool thread wakes the task awaiting it
        // a moment later: wait until the pool is quiet, so that wake is visible to the next decision
        if self.hold_blocking {
            return Ok(());
        }
        if let Some(rt) = self.rt.as_ref() {
            let m = rt.metrics();
            let t0 = std::time::Instant::now();
            let mut spins = 0u32;
            loop {
                if m.num_blocking_threads() <= self.ctrl.blocking_parked() && m.blocking_queue_depth() == 0 {
                    break;
                }
                spins += 1;
                if spins < 200 {
                    std::thread::yield_now();
                } else {
                    std::thread::sleep(Duration::from_micros(50));
                }
                if t0.elapsed() > Duration::from_secs(120) {
                    return harness("blocking pool busy for 120s");
                }
            }
        }
        Ok(())
    }

    /// Stall the blocking pool: jobs spawned from now on wait until `release_blocking`.
    pub fn stall_blocking(&mut self) {
        self.hold_blocking = true;
        BLOCKING_GATE.store(false, std::sync::atomic::Ordering::Release);
    }

    /// Number of blocking-pool threads that are not parked actors (jobs held or running).
    pub fn blocking_busy(&self) -> usize {
        let m = self.rt().metrics();
        m.num_blocking_threads().saturating_sub(self.ctrl.blocking_parked()) + m.blocking_queue_depth()
    }

    pub fn release_blocking(&mut self) -> R<()> {
        self.hold_blocking = false;
        BLOCKING_GATE.store(true, std::sync::atomic::Ordering::Release);
        self.step_tokio()
    }

    pub fn tokio_runnable(&self) -> bool {
        let m = self.rt().metrics();
        m.global_queue_depth() > 0 || m.worker_local_queue_depth(0) > 0
    }

    /// Run the tokio world until no task is runnable and no blocking-pool job is in flight.
    pub fn step_tokio(&mut self) -> R<()> {
        let rt = self.rt.as_ref().unwrap();
        let m = rt.metrics();
        let ctrl = self.ctrl.clone();
        let hold = self.hold_blocking;
        let res: Result<(), String> = rt.block_on(async {
            loop {
                BLOCKING_GATE.store(false, std::sync::atomic::Ordering::Release);
                tokio::task::yield_now().await;
                if hold {
                    // stalled pool: jobs stay queued behind the gate, only task progress counts
                    if m.global_queue_depth() == 0 && m.worker_local_queue_depth(0) == 0 {
                        break;
                    }
                    continue;
                }
                BLOCKING_GATE.store(true, std::sync::atomic::Ordering::Release);
                // wait for the blocking pool to drain (threads exit right after their job) before
                // any other task runs; command calls parked on pool threads are accounted for
                let w0 = std::time::Instant::now();
                let mut spins = 0u32;
                loop {
                    if m.num_blocking_threads() <= ctrl.blocking_parked() && m.blocking_queue_depth() == 0 {
                        break;
                    }
                    spins += 1;
                    if spins < 200 {
                        std::thread::yield_now();
                    } else {
                        std::thread::sleep(Duration::from_micros(50));
                    }
                    // (one wait, not the whole step: a long body through a small pipe makes a
                    // step of thousands of iterations, and a loaded machine makes each slow)
                    if w0.elapsed() > Duration::from_secs(120) {
                        return Err("tokio step: blocking pool busy for 120s".to_string());
                    }
                }
                if m.global_queue_depth() == 0 && m.worker_local_queue_depth(0) == 0 {
                    break;
                }
            }
            Ok(())
        });
        res.map_err(Stop::Harness)?;
        self.ctrl.bump_activity();
        self.wait()
    }

    /// Advance both clocks by `d` ms and let timers fire.
    pub fn tick(&mut self, d: u64) -> R<()> {
        self.ctrl.advance(d);
        self.sim_ms += d;
        let rt = self.rt.as_ref().unwrap();
        rt.block_on(async {
            tokio::time::advance(Duration::from_millis(d)).await;
        });
        self.step_tokio()
    }

    /// One scheduler decision among: enabled xs actors passing `filter`, a tokio step (if
    /// runnable), and the caller's `extra` options.
    pub fn decide(
        &mut self,
        chooser: &mut Chooser,
        extra: &[String],
        filter: &dyn Fn(&Enabled) -> bool,
    ) -> R<Picked> {
        self.wait()?;
        let enabled: Vec<Enabled> = self.ctrl.enabled().into_iter().filter(|e| filter(e)).collect();
        let mut labels: Vec<String> = enabled.iter().map(|e| e.label.clone()).collect();
        let tokio_idx = if self.tokio_runnable() {
            labels.push("tokio".to_string());
            Some(labels.len() - 1)
        } else {
            None
        };
        let extra_base = labels.len();
        labels.extend(extra.iter().cloned());
        if labels.is_empty() {
            return Ok(Picked::Nothing);
        }
        let i = chooser.choose(&labels);
        self.decisions += 1;
        let label = labels[i].clone();
        if std::env::var("XS_SIM_TRACE_DETAIL").is_ok() && i < enabled.len() {
            self.log(format!("d{} {} detail={:x}", self.decisions, label, enabled[i].detail));
        } else {
            self.log(format!("d{} {}", self.decisions, label));
        }

        if i >= extra_base {
            return Ok(Picked::Extra(i - extra_base));
        }
        if Some(i) == tokio_idx {
            self.step_tokio()?;
            return Ok(Picked::Ran(label));
        }
        match enabled[i].kind {
            EnabledKind::Os(idx) => {
                self.ctrl.release_os(idx).map_err(Stop::Harness)?;
            }
            EnabledKind::Async(id) => {
                self.ctrl.release_async(id);
                self.step_tokio()?;
            }
        }
        Ok(Picked::Ran(label))
    }

    /// Release every enabled actor of `kind` until none is enabled (deterministic order).
    pub fn run_kind_until_idle(&mut self, kind: &str, max: usize) -> R<usize> {
        let mut n = 0;
        loop {
            self.wait()?;
            let en: Vec<Enabled> = self
                .ctrl
                .enabled()
                .into_iter()
                .filter(|e| e.actor_kind == kind)
                .collect();
            let Some(e) = en.first() else { break };
            if let EnabledKind::Os(i) = e.kind {
                self.ctrl.release_os(i).map_err(Stop::Harness)?;
            }
            n += 1;
            if n > max {
                return harness(format!("actor kind {} did not become idle in {} steps", kind, max));
            }
        }
        Ok(n)
    }

    pub fn finish(mut self) -> (BTreeMap<String, u64>, u64, u64, Vec<String>) {
        BLOCKING_GATE.store(true, std::sync::atomic::Ordering::Release);
        self.ctrl.end_run();
        if let Some(rt) = self.rt.take() {
            rt.shutdown_timeout(Duration::from_secs(5));
        }
        let dir = self.dir.clone();
        // stores of this run may still be closing in the background for a moment
        std::thread::spawn(move || {
            std::thread::sleep(Duration::from_millis(600));
            let _ = std::fs::remove_dir_all(dir);
        });
        let mut probes = std::mem::take(&mut self.probes);
        for (k, v) in self.ctrl.site_hits() {
            *probes.entry(format!("site:{}", k)).or_insert(0) += v;
        }
        (probes, self.decisions, self.sim_ms, std::mem::take(&mut self.trace))
    }
}

pub fn panic_msg(e: &Box<dyn std::any::Any + Send>) -> String {
    if let Some(s) = e.downcast_ref::<&str>() {
        s.to_string()
    } else if let Some(s) = e.downcast_ref::<String>() {
        s.clone()
    } else {
        "<non-string panic>".to_string()
    }
}
