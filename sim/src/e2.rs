//! E2: seeded schedules over the Store's concurrent surface. Writers are real OS threads
//! parked at the sync points inside `append`; followers are real `Store::read` calls (history
//! thread + live task + heartbeat task on the stepped tokio runtime); pollers and consumers are
//! inline steps of the scheduler. One seeded chooser decides every interleaving.

use std::collections::{BTreeMap, HashMap, HashSet};
use std::sync::{Arc, Mutex};
use std::time::Duration;

use scru128::Scru128Id;
use serde::{Deserialize, Serialize};
use xs::store::{FollowOption, Frame, ReadOptions, Store, TTL, ZERO_CONTEXT};

use crate::model::{fmt_frame, short_ctx};
use crate::props::RunResult;
use crate::rng::Rng;
use crate::world::{harness, violation, Chooser, Picked, Policy, Stop, Violation, World, R};

#[derive(Serialize, Deserialize, Clone, Debug, PartialEq)]
pub struct AppendSpec {
    pub topic: String,
    /// 0 = zero context, k>0 = k-th registered context
    pub ctx: usize,
    pub ephemeral: bool,
    /// time:N TTL (pre-history only): the frame has expired, uncollected, when the run starts
    #[serde(default)]
    pub ttl_ms: Option<u64>,
}

#[derive(Serialize, Deserialize, Clone, Debug, PartialEq)]
pub struct FollowerSpec {
    /// heartbeat period in ms (0 = plain follow)
    pub heartbeat: u64,
    pub tail: bool,
    /// index into the pre-history (mod len) to use as last-id; None = from the beginning
    pub last: Option<usize>,
    pub limit: Option<usize>,
    pub ctx: Option<usize>,
    /// follow=Off (used by C11 for the non-follow limit clause)
    pub nofollow: bool,
}

#[derive(Serialize, Deserialize, Clone, Debug, PartialEq)]
pub struct PollerSpec {
    pub ctx: Option<usize>,
    /// true: always read from the beginning; false: resume with last-id
    pub full: bool,
}

#[derive(Serialize, Deserialize, Clone, Debug, PartialEq)]
pub enum Item {
    Ctx,
    Pre(AppendSpec),
    W(usize, AppendSpec),
    F(FollowerSpec),
    P(PollerSpec),
    /// a thread that removes the registration frame of the k-th context (k >= 1)
    R(usize),
    /// a thread that imports the registration frame of the k-th context (k >= 1) again,
    /// unchanged, while the writers append (the instant before insert_frame's commit is a
    /// step boundary in these runs)
    I(usize),
}

#[derive(Serialize, Deserialize, Clone, Debug)]
pub struct Plan {
    pub prop: String,
    pub seed: u64,
    pub bcap: usize,
    pub rcap: usize,
    pub policy: String,
    pub ticks: u32,
    pub max_decisions: u64,
    /// use xs's real id generator (real clock) instead of the simulated one
    #[serde(default)]
    pub real_ids: bool,
    /// the history thread is released even when the delivery buffer is full and then blocks
    /// for real in its send until the consumer takes a frame (only without heartbeat followers:
    /// the blocked thread must be the only sender waiting for room)
    #[serde(default)]
    pub unguarded: bool,
    pub ops: Vec<Item>,
    #[serde(default)]
    pub choices: Vec<String>,
}

pub fn generate(seed: u64, prop: &str, thorough: bool) -> Plan {
    // C20's share of this engine: the registry workload with a duplicate import of a
    // registration in every run and no removal
    let reimport_only = prop == "C20";
    let prop = if reimport_only { "C07" } else { prop };
    let mut rng = Rng::new(seed);
    let mut ops = Vec::new();
    let nctx = if prop == "C07" { rng.range(1, 2) } else { rng.weighted(&[40, 45, 15]) };
    for _ in 0..nctx {
        ops.push(Item::Ctx);
    }
    let rcap = *rng.pick(&[1usize, 2, 3, 8, 100]);
    let bcap = match prop {
        "C11" => *rng.pick(&[2usize, 2, 4, 16, 1024]),
        _ => *rng.pick(&[2usize, 4, 16, 1024, 1024]),
    };
    let topics = ["a", "b", "ab"];
    let mut spec = |rng: &mut Rng, eph_pct: u32| AppendSpec {
        topic: rng.pick(&topics).to_string(),
        ctx: if prop == "C07" && rng.chance(80) { rng.range(1, nctx) } else { rng.below(nctx + 1) },
        ephemeral: rng.chance(eph_pct),
        ttl_ms: None,
    };
    let eph = match prop {
        "C02" => 10,
        _ => 25,
    };
    // pre-history relative to the delivery capacity
    let h = match rng.weighted(&[15, 20, 25, 15, 15, 10]) {
        0 => 0,
        1 => 1,
        2 => rng.range(2, 4),
        3 => rcap.min(12).saturating_sub(1),
        4 => rcap.min(12),
        _ => (rcap.min(10) + 3).min(if thorough { 16 } else { 13 }),
    };
    for _ in 0..h {
        let mut a = spec(&mut rng, 0);
        if prop == "C11" && rng.chance(20) {
            a.ttl_ms = Some(1);
        }
        ops.push(Item::Pre(a));
    }
    if prop == "C07" {
        for _ in 0..(if reimport_only { 0 } else { rng.range(1, 2) }) {
            ops.push(Item::R(rng.range(1, nctx)));
        }
        // a duplicate import of a registration nobody removes: it must change nothing, at no moment
        if reimport_only || rng.chance(50) {
            let removed: Vec<usize> = ops.iter().filter_map(|o| if let Item::R(k) = o { Some(*k) } else { None }).collect();
            let free: Vec<usize> = (1..=nctx).filter(|k| !removed.contains(k)).collect();
            if !free.is_empty() {
                ops.push(Item::I(*rng.pick(&free)));
            }
        }
    }
    let nw = match prop {
        "C02" => rng.range(2, 4),
        "C07" => rng.range(1, 3),
        _ => rng.range(1, 3),
    };
    for w in 0..nw {
        let n = rng.range(1, 4);
        for _ in 0..n {
            ops.push(Item::W(w, spec(&mut rng, eph)));
        }
    }
    let nf = match prop {
        "C02" => rng.weighted(&[30, 50, 20]),
        "C07" => rng.weighted(&[60, 40]),
        _ => rng.range(1, 2),
    };
    let mut any_hb = false;
    for _ in 0..nf {
        let hb = if rng.chance(match prop {
            "C11" => 40,
            _ => 15,
        }) {
            any_hb = true;
            *rng.pick(&[5u64, 50, 1000])
        } else {
            0
        };
        let limit = if prop == "C11" {
            match rng.weighted(&[30, 70]) {
                0 => None,
                _ => Some(match rng.weighted(&[30, 30, 25, 15]) {
                    0 => h.max(1),
                    1 => h + 1,
                    2 => h.saturating_sub(1).max(1),
                    _ => rng.range(1, 6),
                }),
            }
        } else if rng.chance(8) {
            Some(rng.range(1, 6))
        } else {
            None
        };
        let nofollow = prop == "C11" && rng.chance(15);
        ops.push(Item::F(FollowerSpec {
            heartbeat: if nofollow { 0 } else { hb },
            tail: !nofollow && rng.chance(25),
            last: if rng.chance(25) && h > 0 { Some(rng.below(h)) } else { None },
            limit,
            ctx: if rng.chance(35) { Some(rng.below(nctx + 1)) } else { None },
            nofollow,
        }));
    }
    let np = match prop {
        "C07" => 0,
        "C02" => rng.range(1, 3),
        _ => rng.weighted(&[60, 40]),
    };
    for _ in 0..np {
        ops.push(Item::P(PollerSpec {
            ctx: if rng.chance(35) { Some(rng.below(nctx + 1)) } else { None },
            full: rng.chance(40),
        }));
    }
    let policy = match rng.weighted(&[35, 20, 20, 10, 10, 5]) {
        0 => "uniform",
        1 => "burst",
        2 => "pct",
        3 => "starve-consume",
        4 => "starve-live",
        _ => "starve-history",
    };
    Plan {
        prop: prop.to_string(),
        seed,
        bcap,
        rcap,
        policy: policy.to_string(),
        ticks: if any_hb { rng.range(2, 8) as u32 } else { 0 },
        max_decisions: 600,
        real_ids: rng.chance(if prop == "C02" { 35 } else { 10 }),
        unguarded: rng.chance(35) && !any_hb,
        ops,
        choices: vec![],
    }
}

#[derive(Default, Clone, Debug)]
struct AppendRec {
    writer: usize,
    spec_ephemeral: bool,
    ctx: Scru128Id,
    id: Option<Scru128Id>,
    t_begin: Option<u64>,
    t_committed: Option<u64>,
    t_bcast: Option<u64>,
    frame: Option<Frame>,
    rejected_at: Option<u64>,
    reject_msg: String,
}

struct Follower {
    spec: FollowerSpec,
    ctx: Option<Scru128Id>,
    last_id: Option<Scru128Id>,
    started_at: Option<u64>,
    /// the read task was spawned (it may still be waiting for the append lock)
    spawned: bool,
    /// tokio task of the read call while it waits for the append lock
    wait_task: Option<usize>,
    rid: Option<u128>,
    orx: Option<std::sync::mpsc::Receiver<tokio::sync::mpsc::Receiver<Frame>>>,
    rx: Option<tokio::sync::mpsc::Receiver<Frame>>,
    got: Vec<Frame>,
    closed: bool,
    live_task: Option<usize>,
    hist_idx: Option<usize>,
    hist_delivering: HashSet<Scru128Id>,
    t_scanned: Option<u64>,
    live_received: u64,
    sent_at_sub: u64,
    max_pending: u64,
    pulses_after_close_possible: bool,
}

struct Poller {
    spec: PollerSpec,
    ctx: Option<Scru128Id>,
    last: Option<Scru128Id>,
    seen: Vec<Frame>,
}

struct Run {
    w: World,
    store: Store,
    plan: Plan,
    ctxs: Vec<Scru128Id>,
    pre: Vec<Frame>,
    appends: Vec<AppendRec>,
    writer_progress: Vec<usize>,
    writer_bases: Vec<usize>,
    writer_lens: Vec<usize>,
    followers: Vec<Follower>,
    pollers: Vec<Poller>,
    observed_max: HashMap<Option<Scru128Id>, Scru128Id>,
    observed_set: HashMap<Option<Scru128Id>, HashSet<Scru128Id>>,
    results: Arc<Mutex<Vec<(usize, usize, Result<Frame, String>)>>>,
    bcast_total: u64,
    ticks_left: u32,
    removers: Vec<Remover>,
    importers: Vec<Importer>,
    pre_expired: HashSet<Scru128Id>,
}

struct Importer {
    ctx: Scru128Id,
}

struct Remover {
    ctx: Scru128Id,
    t_committed: Option<u64>,
    t_done: Option<u64>,
}

fn ctx_of(ctxs: &[Scru128Id], k: usize) -> Scru128Id {
    if k == 0 || ctxs.is_empty() {
        ZERO_CONTEXT
    } else {
        ctxs[(k - 1) % ctxs.len()]
    }
}

fn is_synthetic(f: &Frame) -> bool {
    (f.topic == "xs.threshold" || f.topic == "xs.pulse") && f.ttl == Some(TTL::Ephemeral)
}

impl Run {
    fn new(plan: &Plan, tag: &str) -> R<Run> {
        let has_removers = plan.ops.iter().any(|i| matches!(i, Item::R(_)));
        let pass: &[&'static str] = if has_removers { &[] } else { &["remove.enter", "remove.committed"] };
        let mut w = World::new(tag, plan.seed ^ 0x2e, &[("broadcast.cap", plan.bcap), ("read.cap", plan.rcap), ("ids.real", plan.real_ids as usize), ("hist.unguarded", plan.unguarded as usize), ("insert.point", plan.ops.iter().any(|i| matches!(i, Item::I(_))) as usize)], pass);
        let path = w.dir.join("s0");
        std::fs::create_dir_all(&path).map_err(|e| Stop::Harness(e.to_string()))?;
        let store = w.open_store(&path)?;
        let mut ctxs = Vec::new();
        let mut pre = Vec::new();
        // setup: contexts and pre-history, sequentially on the scheduler thread
        for it in &plan.ops {
            match it {
                Item::Ctx => {
                    let f = store
                        .append(Frame::builder("xs.context", ZERO_CONTEXT).build())
                        .map_err(|e| Stop::Harness(format!("setup: {}", e)))?;
                    ctxs.push(f.id);
                    pre.push(f);
                }
                _ => {}
            }
        }
        let mut pre_expired: HashSet<Scru128Id> = HashSet::new();
        for it in &plan.ops {
            if let Item::Pre(a) = it {
                let f = store
                    .append(
                        Frame::builder(a.topic.clone(), ctx_of(&ctxs, a.ctx))
                            // (with xs's real id generator the id timestamps are not on the simulated clock)
                            .maybe_ttl(if plan.real_ids { None } else { a.ttl_ms.map(|ms| TTL::Time(Duration::from_millis(ms))) })
                            .build(),
                    )
                    .map_err(|e| Stop::Harness(format!("setup: {}", e)))?;
                if a.ttl_ms.is_some() && !plan.real_ids {
                    pre_expired.insert(f.id);
                }
                pre.push(f);
                w.ctrl.advance(1);
            }
        }
        // every time:N frame of the pre-history has expired (and is not collected: the gc actor never runs here)
        w.ctrl.advance(20);
        let removers: Vec<Remover> = plan
            .ops
            .iter()
            .filter_map(|i| if let Item::R(k) = i { Some(*k) } else { None })
            .map(|k| Remover { ctx: ctx_of(&ctxs, k), t_committed: None, t_done: None })
            .collect();
        let importers: Vec<Importer> = plan.ops.iter().filter_map(|i| if let Item::I(k) = i { Some(Importer { ctx: ctx_of(&ctxs, *k) }) } else { None }).collect();
        let nw = plan.ops.iter().filter_map(|i| if let Item::W(w, _) = i { Some(*w + 1) } else { None }).max().unwrap_or(0);
        let mut appends = Vec::new();
        let mut writer_bases = Vec::new();
        let mut writer_lens = Vec::new();
        for wi in 0..nw {
            writer_bases.push(appends.len());
            let mut n = 0;
            for it in &plan.ops {
                if let Item::W(x, a) = it {
                    if *x == wi {
                        appends.push(AppendRec {
                            writer: wi,
                            spec_ephemeral: a.ephemeral,
                            ctx: ctx_of(&ctxs, a.ctx),
                            ..Default::default()
                        });
                        n += 1;
                    }
                }
            }
            writer_lens.push(n);
        }
        let followers = plan
            .ops
            .iter()
            .filter_map(|i| if let Item::F(f) = i { Some(f.clone()) } else { None })
            .map(|spec| {
                let nonctx: Vec<&Frame> = pre.iter().filter(|f| f.topic != "xs.context").collect();
                let last_id = spec.last.and_then(|k| if nonctx.is_empty() { None } else { Some(nonctx[k % nonctx.len()].id) });
                Follower {
                    ctx: spec.ctx.map(|k| ctx_of(&ctxs, k)),
                    last_id,
                    spec,
                    started_at: None,
                    spawned: false,
                    wait_task: None,
                    rid: None,
                    orx: None,
                    rx: None,
                    got: Vec::new(),
                    closed: false,
                    live_task: None,
                    hist_idx: None,
                    hist_delivering: HashSet::new(),
                    t_scanned: None,
                    live_received: 0,
                    sent_at_sub: 0,
                    max_pending: 0,
                    pulses_after_close_possible: false,
                }
            })
            .collect();
        let pollers = plan
            .ops
            .iter()
            .filter_map(|i| if let Item::P(p) = i { Some(p.clone()) } else { None })
            .map(|spec| Poller {
                ctx: spec.ctx.map(|k| ctx_of(&ctxs, k)),
                spec,
                last: None,
                seen: Vec::new(),
            })
            .collect();
        Ok(Run {
            w,
            store,
            plan: plan.clone(),
            ctxs,
            pre,
            appends,
            writer_progress: vec![0; nw],
            writer_bases,
            writer_lens,
            followers,
            pollers,
            observed_max: HashMap::new(),
            observed_set: HashMap::new(),
            results: Arc::new(Mutex::new(Vec::new())),
            bcast_total: 0,
            ticks_left: plan.ticks,
            removers,
            importers,
            pre_expired,
        })
    }

    fn spawn_writers(&mut self) -> R<()> {
        let nw = self.writer_lens.len();
        for wi in 0..nw {
            let specs: Vec<AppendSpec> = self
                .plan
                .ops
                .iter()
                .filter_map(|i| if let Item::W(x, a) = i { if *x == wi { Some(a.clone()) } else { None } } else { None })
                .collect();
            let store = self.store.clone();
            let ctxs = self.ctxs.clone();
            let results = self.results.clone();
            let ticket = xs::verif::expect_thread("writer");
            std::thread::spawn(move || {
                let _scope = xs::verif::thread_scope("writer", ticket);
                let (store, results) = (store, results);
                for (i, a) in specs.iter().enumerate() {
                    let frame = Frame::builder(a.topic.clone(), ctx_of(&ctxs, a.ctx))
                        .meta(serde_json::json!({"w": wi, "i": i}))
                        .maybe_ttl(if a.ephemeral { Some(TTL::Ephemeral) } else { None })
                        .build();
                    let r = store.append(frame).map_err(|e| e.to_string());
                    results.lock().unwrap().push((wi, i, r));
                }
                xs::verif::point("writer.end", 0);
            });
            self.w.wait()?;
        }
        for r in &self.removers {
            let store = self.store.clone();
            let id = r.ctx;
            let ticket = xs::verif::expect_thread("remover");
            std::thread::spawn(move || {
                let _scope = xs::verif::thread_scope("remover", ticket);
                let store = store;
                let _ = store.remove(&id);
                xs::verif::point("remover.end", 0);
            });
            self.w.wait()?;
        }
        for im in &self.importers {
            let store = self.store.clone();
            let id = im.ctx;
            let ticket = xs::verif::expect_thread("importer");
            std::thread::spawn(move || {
                let _scope = xs::verif::thread_scope("importer", ticket);
                let store = store;
                xs::verif::point("importer.begin", 0);
                if let Some(frame) = store.get(&id) {
                    let _ = store.insert_frame(&frame);
                }
                xs::verif::point("importer.end", 0);
            });
            self.w.wait()?;
        }
        Ok(())
    }

    /// After every decision: where is each writer now? Derives begin/commit/broadcast times.
    fn track_writers(&mut self) -> R<()> {
        let t = self.w.decisions;
        let parked = self.w.ctrl.parked_idx();
        // collect finished appends
        let res: Vec<(usize, usize, Result<Frame, String>)> = std::mem::take(&mut *self.results.lock().unwrap());
        for (wi, i, r) in res {
            let idx = self.writer_bases[wi] + i;
            match r {
                Ok(f) => {
                    let a = &mut self.appends[idx];
                    a.id = Some(f.id);
                    if a.t_begin.is_none() {
                        a.t_begin = Some(t);
                    }
                    if a.t_bcast.is_none() {
                        a.t_bcast = Some(t);
                        self.bcast_total += 1;
                    }
                    if !a.spec_ephemeral && a.t_committed.is_none() {
                        a.t_committed = Some(t);
                    }
                    a.frame = Some(f);
                    self.writer_progress[wi] = self.writer_progress[wi].max(i + 1);
                }
                Err(e) => {
                    if self.removers.is_empty() && self.importers.is_empty() {
                        return harness(format!("writer {} append {} failed: {}", wi, i, e));
                    }
                    let a = &mut self.appends[idx];
                    a.rejected_at = Some(t);
                    a.reject_msg = e;
                    self.writer_progress[wi] = self.writer_progress[wi].max(i + 1);
                    self.w.probe("append:rejected");
                }
            }
        }
        for (kind, kidx, site, _) in parked.iter() {
            if *kind == "remover" && *kidx < self.removers.len() {
                let r = &mut self.removers[*kidx];
                if *site == "remove.committed" && r.t_committed.is_none() {
                    r.t_committed = Some(t);
                }
                if *site == "remover.end" {
                    if r.t_committed.is_none() {
                        r.t_committed = Some(t);
                    }
                    if r.t_done.is_none() {
                        r.t_done = Some(t);
                    }
                }
            }
        }
        let inside = parked
            .iter()
            .filter(|(k, _, s, _)| *k == "writer" && (*s == "append.id" || *s == "insert.commit" || *s == "append.committed" || *s == "append.sending" || *s == "append.broadcast"))
            .count();
        let waiting = parked.iter().filter(|(k, _, s, _)| *k == "writer" && *s == "append.enter").count();
        if parked.iter().any(|(k, _, s, _)| *k == "importer" && *s == "insert.commit") && (inside >= 1 || waiting >= 1) {
            self.w.probe("ctx:append-raced-reimport");
        }
        if inside >= 2 || (inside >= 1 && waiting >= 1) {
            // two writers want to append at the same time (one inside, one inside or at the door)
            self.w.probe("overlap:writers");
        }
        for (kind, kidx, site, detail) in parked {
            if kind != "writer" {
                continue;
            }
            let wi = kidx;
            if wi >= self.writer_lens.len() {
                continue;
            }
            let cur = self.writer_progress[wi];
            if cur >= self.writer_lens[wi] {
                continue;
            }
            let idx = self.writer_bases[wi] + cur;
            let a = &mut self.appends[idx];
            match site {
                "append.id" => {
                    if a.t_begin.is_none() {
                        a.t_begin = Some(t);
                        a.id = Some(Scru128Id::from_u128(detail));
                    }
                }
                "append.committed" => {
                    if a.t_begin.is_none() {
                        a.t_begin = Some(t);
                    }
                    a.id = Some(Scru128Id::from_u128(detail));
                    if a.t_committed.is_none() {
                        a.t_committed = Some(t);
                    }
                }
                "append.sending" => {
                    if a.t_begin.is_none() {
                        a.t_begin = Some(t);
                    }
                    a.id = Some(Scru128Id::from_u128(detail));
                    if !a.spec_ephemeral && a.t_committed.is_none() {
                        a.t_committed = Some(t);
                    }
                }
                "append.broadcast" => {
                    if a.t_begin.is_none() {
                        a.t_begin = Some(t);
                    }
                    a.id = Some(Scru128Id::from_u128(detail));
                    if !a.spec_ephemeral && a.t_committed.is_none() {
                        a.t_committed = Some(t);
                    }
                    if a.t_bcast.is_none() {
                        a.t_bcast = Some(t);
                        self.bcast_total += 1;
                    }
                }
                _ => {}
            }
        }
        Ok(())
    }

    fn track_followers(&mut self) -> R<()> {
        // receivers handed over by the read tasks
        for f in self.followers.iter_mut() {
            if f.rx.is_none() {
                if let Some(orx) = &f.orx {
                    if let Ok(rx) = orx.try_recv() {
                        f.rx = Some(rx);
                    }
                }
            }
        }
        // history thread identity (hist.scan carries the read id) and the end of its scan
        let t = self.w.decisions;
        for (kind, kidx, site, detail) in self.w.ctrl.parked_idx() {
            if kind != "history" {
                continue;
            }
            for f in self.followers.iter_mut() {
                if site == "hist.scan" && f.rid == Some(detail) && f.hist_idx.is_none() {
                    f.hist_idx = Some(kidx);
                }
                if (site == "hist.scanned" || site == "hist.done") && f.hist_idx == Some(kidx) && f.t_scanned.is_none() {
                    f.t_scanned = Some(t);
                }
                if site == "hist.deliver" && f.hist_idx == Some(kidx) {
                    // the history thread is about to deliver this frame
                    f.hist_delivering.insert(Scru128Id::from_u128(detail));
                }
            }
        }
        // live task identity and receive counts, from the async points
        let ap = self.w.ctrl.aparked();
        let bt = self.bcast_total;
        for (task, site, detail) in &ap {
            if *site == "read.subscribed" {
                for f in self.followers.iter_mut() {
                    if f.started_at.is_none() && f.wait_task == Some(*task) {
                        f.started_at = Some(t);
                        f.rid = Some(*detail);
                        f.sent_at_sub = bt;
                    }
                }
            }
        }
        for (task, site, detail) in ap {
            if site == "live.start" {
                for f in self.followers.iter_mut() {
                    if f.rid == Some(detail) && f.live_task.is_none() {
                        f.live_task = Some(task);
                    }
                }
            }
        }
        Ok(())
    }

    fn phase_probe(&mut self) {
        if self.followers.is_empty() {
            return;
        }
        let f0_started = self.followers[0].started_at.is_some();
        let phase = if !f0_started {
            "before-start"
        } else {
            let ap = self.w.ctrl.aparked();
            let pk = self.w.ctrl.parked();
            if ap.iter().any(|(_, s, _)| *s == "read.subscribed") {
                "subscribed"
            } else if pk.iter().any(|(k, s, _)| *k == "history" && *s == "hist.scan") {
                "pre-scan"
            } else if pk.iter().any(|(k, s, _)| *k == "history" && *s == "hist.deliver") {
                "scanning"
            } else if pk.iter().any(|(k, s, _)| *k == "history" && *s == "hist.scanned") {
                "scanned"
            } else if pk.iter().any(|(k, s, _)| *k == "history" && *s == "hist.done") {
                "done-pending"
            } else if ap.iter().any(|(_, s, _)| *s == "live.start") {
                "live-start"
            } else {
                "live"
            }
        };
        self.w.probe(&format!("win:{}", phase));
    }

    fn start_follower(&mut self, k: usize) -> R<()> {
        let f = &self.followers[k];
        let follow = if f.spec.nofollow {
            FollowOption::Off
        } else if f.spec.heartbeat > 0 {
            FollowOption::WithHeartbeat(Duration::from_millis(f.spec.heartbeat))
        } else {
            FollowOption::On
        };
        let opts = ReadOptions::builder()
            .follow(follow)
            .tail(f.spec.tail)
            .maybe_last_id(f.last_id)
            .maybe_limit(f.spec.limit)
            .maybe_context_id(f.ctx)
            .build();
        let store = self.store.clone();
        let (otx, orx) = std::sync::mpsc::channel();
        self.w.rt().spawn(async move {
            let rx = store.read(opts).await;
            let _ = otx.send(rx);
        });
        let before: HashSet<(usize, &'static str, u128)> = self.w.ctrl.aparked().into_iter().collect();
        self.w.step_tokio()?;
        let new: Vec<(usize, &'static str, u128)> = self.w.ctrl.aparked().into_iter().filter(|e| !before.contains(e)).collect();
        let rid = new.iter().find(|(_, s, _)| *s == "read.subscribed").map(|(_, _, d)| *d);
        let waiting = new.iter().find(|(_, s, _)| *s == "read.lockwait").map(|(t, _, _)| *t);
        let t = self.w.decisions;
        let bt = self.bcast_total;
        let f = &mut self.followers[k];
        f.orx = Some(orx);
        f.spawned = true;
        if rid.is_some() {
            f.started_at = Some(t);
            f.rid = rid;
            f.sent_at_sub = bt;
        } else if waiting.is_some() {
            // a writer is inside append: the read waits for the append lock and subscribes later
            f.wait_task = waiting;
            self.w.probe("follower:waited-for-append-lock");
        } else {
            return harness("follower read reached neither read.subscribed nor read.lockwait");
        }
        Ok(())
    }

    fn consume(&mut self, k: usize) -> R<()> {
        // a history thread blocked in its send into this follower's full buffer is woken by
        // the frame taken below: account for it first
        let mut woke = false;
        if let Some(rid) = self.followers[k].rid {
            if self.followers[k].rx.is_some() && self.w.ctrl.wake_blocked("hist.send", rid) {
                self.w.probe("history:blocked-in-send-woken");
                woke = true;
            }
        }
        let f = &mut self.followers[k];
        let Some(rx) = f.rx.as_mut() else { return Ok(()) };
        let taken = rx.try_recv();
        if woke {
            // the woken thread runs to its next sync point before anything is observed
            self.w.wait()?;
            self.track_followers()?;
        }
        let f = &mut self.followers[k];
        match taken {
            Ok(fr) => {
                f.got.push(fr.clone());
                // online: order and duplicates of real frames
                if !is_synthetic(&fr) {
                    let reals: Vec<&Frame> = f.got.iter().filter(|x| !is_synthetic(x)).collect();
                    if reals.len() >= 2 {
                        let a = reals[reals.len() - 2];
                        let b = reals[reals.len() - 1];
                        if b.id <= a.id {
                            let class = if reals[..reals.len() - 1].iter().any(|x| x.id == b.id) { "follow/duplicate" } else { "follow/order" };
                            return violation(
                                class,
                                format!("follower {} received {} after {}", k, fmt_frame(b), fmt_frame(a)),
                            );
                        }
                    }
                    if let Some(n) = f.spec.limit {
                        if reals.len() > n {
                            return violation(
                                "follow/limit-overrun",
                                format!(
                                    "follower {} (limit {}, follow {}) received a {}th frame: {}",
                                    k,
                                    n,
                                    !f.spec.nofollow,
                                    reals.len(),
                                    fmt_frame(&fr)
                                ),
                            );
                        }
                    }
                    if let Some(c) = f.ctx {
                        if fr.context_id != c {
                            return violation("ctx/leak:follow", format!("follower {} scoped to {} received {}", k, short_ctx(&c), fmt_frame(&fr)));
                        }
                    }
                } else {
                    if fr.topic == "xs.pulse" && f.spec.heartbeat == 0 {
                        return violation("follow/foreign-synthetic", format!("follower {} did not ask for a heartbeat but received {}", k, fmt_frame(&fr)));
                    }
                    if fr.topic == "xs.threshold" && (f.spec.tail || f.spec.limit.is_some() || f.spec.nofollow) {
                        return violation("follow/unexpected-threshold", format!("follower {} (tail {}, limit {:?}, follow {}) received {}", k, f.spec.tail, f.spec.limit, !f.spec.nofollow, fmt_frame(&fr)));
                    }
                }
            }
            Err(tokio::sync::mpsc::error::TryRecvError::Disconnected) => {
                f.closed = true;
            }
            Err(tokio::sync::mpsc::error::TryRecvError::Empty) => {}
        }
        Ok(())
    }

    fn poll(&mut self, p: usize) -> R<()> {
        let (ctx, last, full) = {
            let po = &self.pollers[p];
            (po.ctx, po.last, po.spec.full)
        };
        let res: Vec<Frame> = self.store.read_sync(if full { None } else { last.as_ref() }, None, ctx).collect();
        self.w.probe("poll");
        for w2 in res.windows(2) {
            if w2[0].id >= w2[1].id {
                return violation("append-only/poll-order", format!("poller {}: read_sync returned {} before {}", p, w2[0].id, w2[1].id));
            }
        }
        let scope = ctx;
        let omax = self.observed_max.get(&scope).copied();
        let oset = self.observed_set.entry(scope).or_default();
        let mut newmax = omax;
        for f in &res {
            if !oset.contains(&f.id) {
                if let Some(m) = omax {
                    if f.id < m {
                        return violation(
                            "append-only/late-frame",
                            format!(
                                "poller {} (scope {}): {} became visible although a reader of this scope had already observed the larger id {}",
                                p,
                                scope.map(|c| short_ctx(&c)).unwrap_or_else(|| "all".into()),
                                fmt_frame(f),
                                m
                            ),
                        );
                    }
                }
                oset.insert(f.id);
            }
            if newmax.map(|m| f.id > m).unwrap_or(true) {
                newmax = Some(f.id);
            }
        }
        if let Some(m) = newmax {
            self.observed_max.insert(scope, m);
        }
        let po = &mut self.pollers[p];
        if full {
            po.seen = res;
        } else {
            if let Some(l) = res.last() {
                po.last = Some(l.id);
            }
            po.seen.extend(res);
        }
        Ok(())
    }

    fn run(&mut self, chooser: &mut Chooser) -> R<()> {
        self.spawn_writers()?;
        let mut drain_mode = false;
        loop {
            if self.w.decisions > self.plan.max_decisions {
                drain_mode = true;
            }
            if self.w.decisions > self.plan.max_decisions * 20 {
                return harness("run does not terminate");
            }
            self.track_writers()?;
            self.track_followers()?;
            for f in self.followers.iter_mut() {
                if let Some(t) = f.live_task {
                    f.live_received = self.w.ctrl.task_hits(t, "live.recv");
                }
                if f.started_at.is_some() {
                    let pending = (self.bcast_total - f.sent_at_sub).saturating_sub(f.live_received);
                    if pending > f.max_pending {
                        f.max_pending = pending;
                    }
                }
            }
            // extras
            let mut extra: Vec<String> = Vec::new();
            let mut extra_kind: Vec<(u8, usize)> = Vec::new();
            for (k, f) in self.followers.iter().enumerate() {
                if !f.spawned {
                    extra.push(format!("start-follower#{}", k));
                    extra_kind.push((0, k));
                } else if let Some(rx) = &f.rx {
                    if !f.closed && (rx.len() > 0 || rx.is_closed()) {
                        extra.push(format!("consume#{}", k));
                        extra_kind.push((1, k));
                    }
                }
            }
            let writers_live = self.w.ctrl.parked().iter().any(|(k, s, _)| *k == "writer" && *s != "writer.end");
            if !drain_mode {
                for p in 0..self.pollers.len() {
                    if writers_live || self.w.decisions < 4 {
                        extra.push(format!("poll#{}", p));
                        extra_kind.push((2, p));
                    }
                }
                if self.ticks_left > 0 && self.followers.iter().any(|f| f.started_at.is_some() && f.spec.heartbeat > 0) {
                    extra.push("tick".to_string());
                    extra_kind.push((3, 0));
                }
            }
            // a read waiting for the append lock is worth another try only once the lock is free
            let lock_free = self.store.verif_append_lock_free();
            let picked = self.w.decide(chooser, &extra, &|e| e.site != "writer.end" && e.site != "remover.end" && e.site != "importer.end" && e.actor_kind != "gc" && (e.site != "read.lockwait" || lock_free))?;
            match picked {
                Picked::Nothing => break,
                Picked::Ran(label) => {
                    if label.starts_with("writer") && label.ends_with("append.enter") {
                        self.phase_probe();
                    }
                }
                Picked::Extra(i) => {
                    let (kind, k) = extra_kind[i];
                    match kind {
                        0 => self.start_follower(k)?,
                        1 => self.consume(k)?,
                        2 => self.poll(k)?,
                        _ => {
                            self.ticks_left -= 1;
                            let d = self
                                .followers
                                .iter()
                                .filter(|f| f.spec.heartbeat > 0)
                                .map(|f| f.spec.heartbeat)
                                .min()
                                .unwrap_or(1);
                            self.w.tick(d)?;
                            self.w.probe("tick");
                        }
                    }
                }
            }
        }
        self.track_writers()?;
        self.track_followers()?;
        // release the writers parked at their end point
        loop {
            self.w.wait()?;
            let en: Vec<_> = self.w.ctrl.enabled().into_iter().filter(|e| e.site == "writer.end" || e.site == "remover.end" || e.site == "importer.end").collect();
            if en.is_empty() {
                break;
            }
            for e in en {
                if let crate::ctrl::EnabledKind::Os(i) = e.kind {
                    self.w.ctrl.release_os(i).map_err(Stop::Harness)?;
                }
            }
        }
        self.final_checks()
    }

    fn expected_for(&self, f: &Follower) -> (Vec<Frame>, Vec<Frame>, Vec<Frame>) {
        // (must, may, all_in_order) over every accepted frame of the run
        let d = f.started_at.unwrap_or(u64::MAX);
        let mut all: Vec<(Frame, u8)> = Vec::new(); // 2 must, 1 may, 0 must-not
        let in_scope = |fr: &Frame| f.ctx.map(|c| fr.context_id == c).unwrap_or(true) && f.last_id.map(|l| fr.id > l).unwrap_or(true);
        for fr in &self.pre {
            if !in_scope(fr) {
                continue;
            }
            // pre-history was fully appended before any follower started
            let removed_reg = self.removers.iter().any(|r| r.ctx == fr.id);
            let st = if f.spec.tail || self.pre_expired.contains(&fr.id) {
                0
            } else if removed_reg {
                1
            } else {
                2
            };
            all.push((fr.clone(), st));
        }
        for a in &self.appends {
            let Some(fr) = &a.frame else { continue };
            if !in_scope(fr) {
                continue;
            }
            let begun_after = a.t_begin.map(|t| t > d).unwrap_or(false);
            let done_before = a.t_bcast.map(|t| t < d).unwrap_or(false);
            let st = if f.spec.nofollow {
                // history only: must if committed before the read started, never if ephemeral
                if a.spec_ephemeral {
                    0
                } else if a.t_committed.map(|t| t < d).unwrap_or(false) {
                    2
                } else {
                    1
                }
            } else if !a.spec_ephemeral && !f.spec.tail {
                2
            } else if begun_after {
                2
            } else if done_before {
                0
            } else {
                1
            };
            all.push((fr.clone(), st));
        }
        all.sort_by_key(|(fr, _)| fr.id);
        let must = all.iter().filter(|(_, s)| *s == 2).map(|(f, _)| f.clone()).collect();
        let may = all.iter().filter(|(_, s)| *s == 1).map(|(f, _)| f.clone()).collect();
        let allv = all.iter().filter(|(_, s)| *s > 0).map(|(f, _)| f.clone()).collect();
        (must, may, allv)
    }

    fn final_checks(&mut self) -> R<()> {
        if self.w.ctrl.unexpected_wakes() > 0 {
            // only changed code gets here: a send into a full buffer that returned by itself
            self.w.probe("history:send-into-full-buffer-returned");
        }
        // final store content
        let all: Vec<Frame> = self.store.read_sync(None, None, None).collect();
        for f in &all {
            if is_synthetic(f) || f.topic == "xs.threshold" || f.topic == "xs.pulse" {
                return violation("follow/synthetic-stored", format!("a synthetic frame is in the store: {}", fmt_frame(f)));
            }
        }
        let removed: HashSet<Scru128Id> = self.removers.iter().filter(|r| r.t_committed.is_some()).map(|r| r.ctx).collect();
        // context registry vs stored frames under concurrent removal of a registration
        for a in &self.appends {
            if a.ctx == ZERO_CONTEXT {
                continue;
            }
            let t_rc = self.removers.iter().filter(|r| r.ctx == a.ctx).filter_map(|r| r.t_committed).min();
            if let (Some(fr), Some(tb), Some(rc)) = (&a.frame, a.t_begin, t_rc) {
                if tb > rc {
                    return violation(
                        "append/accepted-unregistered",
                        format!(
                            "{} was accepted although the registration frame of its context had been removed (removal committed at decision {}, append began at decision {})",
                            fmt_frame(fr),
                            rc,
                            tb
                        ),
                    );
                }
                self.w.probes.entry("ctx:append-raced-removal".to_string()).and_modify(|x| *x += 1).or_insert(1);
            }
            if let Some(tr) = a.rejected_at {
                let began_removal = self.removers.iter().filter(|r| r.ctx == a.ctx).filter_map(|r| r.t_committed).min();
                if began_removal.map(|rc| tr < rc).unwrap_or(true) {
                    return violation(
                        "append/rejected-valid",
                        format!("an append into context {} was rejected ({}) at decision {} although its registration frame still existed (removal committed at {:?})", short_ctx(&a.ctx), a.reject_msg, tr, began_removal),
                    );
                }
            }
        }
        let mut stored_expected: Vec<Frame> = self.pre.iter().filter(|f| !removed.contains(&f.id) && !self.pre_expired.contains(&f.id)).cloned().collect();
        for a in &self.appends {
            if let Some(fr) = &a.frame {
                if !a.spec_ephemeral {
                    stored_expected.push(fr.clone());
                }
            }
        }
        stored_expected.sort_by_key(|f| f.id);
        if all != stored_expected {
            return violation(
                "append-only/final-store",
                format!(
                    "final stream [{}] differs from the accepted stored appends [{}]",
                    all.iter().map(|f| f.id.to_string()).collect::<Vec<_>>().join(","),
                    stored_expected.iter().map(|f| f.id.to_string()).collect::<Vec<_>>().join(",")
                ),
            );
        }
        // (c) resuming pollers: one last poll, then their concatenation is the stream of their scope
        for p in 0..self.pollers.len() {
            self.poll(p)?;
            let po = &self.pollers[p];
            let want: Vec<&Frame> = all.iter().filter(|f| po.ctx.map(|c| f.context_id == c).unwrap_or(true)).collect();
            let got: Vec<&Frame> = po.seen.iter().collect();
            if got != want {
                let missing: Vec<String> = want.iter().filter(|f| !got.iter().any(|g| g.id == f.id)).map(|f| fmt_frame(f)).collect();
                return violation(
                    "append-only/poller-missed",
                    format!(
                        "poller {} ({}, scope {}) saw {} frames but its scope holds {}; never seen: [{}]",
                        p,
                        if po.spec.full { "full scans" } else { "resuming with last-id" },
                        po.ctx.map(|c| short_ctx(&c)).unwrap_or_else(|| "all".into()),
                        got.len(),
                        want.len(),
                        missing.join(", ")
                    ),
                );
            }
        }
        // followers: check each one; a violation of the known ephemeral-gap shape does not stop
        // the others from being checked, and is reported only if nothing else is wrong
        let mut soft: Option<Stop> = None;
        for k in 0..self.followers.len() {
            match self.final_follower(k) {
                Ok(()) => {}
                Err(Stop::Violation(v)) if v.class == "follow/gap:ephemeral-behind-scanned" => {
                    if soft.is_none() {
                        soft = Some(Stop::Violation(v));
                    }
                }
                Err(e) => return Err(e),
            }
        }
        for (k, f) in self.followers.iter().enumerate() {
            let ids: Vec<String> = f.got.iter().map(|x| if is_synthetic(x) { format!("<{}>", x.topic) } else { x.id.to_string() }).collect();
            let line = format!("obs follower{} closed={} [{}]", k, f.closed, ids.join(","));
            if self.w.keep_trace && !self.plan.real_ids {
                self.w.trace.push(line);
            }
        }
        match soft {
            Some(e) => Err(e),
            None => Ok(()),
        }
    }

    fn final_follower(&mut self, k: usize) -> R<()> {
        {
            // drain what is left
            loop {
                let f = &self.followers[k];
                let Some(rx) = &f.rx else { break };
                if f.closed || !(rx.len() > 0 || rx.is_closed()) {
                    break;
                }
                self.consume(k)?;
            }
            let f = &self.followers[k];
            if f.started_at.is_none() {
                return Ok(());
            }
            let (must, may, allv) = self.expected_for(f);
            let reals: Vec<&Frame> = f.got.iter().filter(|x| !is_synthetic(x)).collect();
            let desc = format!(
                "follower {} (follow {}, heartbeat {}, tail {}, last-id {:?}, limit {:?}, ctx {}, read cap {}, broadcast cap {})",
                k,
                !f.spec.nofollow,
                f.spec.heartbeat,
                f.spec.tail,
                f.last_id.map(|l| l.to_string()),
                f.spec.limit,
                f.ctx.map(|c| short_ctx(&c)).unwrap_or_else(|| "all".into()),
                self.plan.rcap,
                self.plan.bcap
            );
            // nothing outside must ∪ may
            for r in &reals {
                if !allv.iter().any(|x| x.id == r.id) {
                    let class = if f.spec.tail && self.pre.iter().any(|p| p.id == r.id) {
                        "follow/tail-history"
                    } else if f.ctx.map(|c| r.context_id != c).unwrap_or(false) {
                        "ctx/leak:follow"
                    } else {
                        "follow/unexpected"
                    };
                    return violation(class, format!("{} received {} which it must not receive", desc, fmt_frame(r)));
                }
                if let Some(orig) = allv.iter().find(|x| x.id == r.id) {
                    if *orig != **r {
                        return violation("follow/fields", format!("{} received {} but the accepted frame is {}", desc, fmt_frame(r), fmt_frame(orig)));
                    }
                }
            }
            // delivered sequence vs expected sequence
            let limit = f.spec.limit;
            let lagged = f.max_pending > self.plan.bcap as u64;
            if lagged {
                self.w.probes.entry("lag:possible".to_string()).and_modify(|x| *x += 1).or_insert(1);
            }
            // walk: every must frame (up to the limit) has to appear, in order
            let mut gi = 0usize;
            let mut delivered_must = 0usize;
            let mut first_missing: Option<&Frame> = None;
            for e in &allv {
                if limit.map(|n| gi >= n).unwrap_or(false) {
                    break;
                }
                if gi < reals.len() && reals[gi].id == e.id {
                    gi += 1;
                    if must.iter().any(|m| m.id == e.id) {
                        delivered_must += 1;
                    }
                } else if must.iter().any(|m| m.id == e.id) {
                    first_missing = Some(e);
                    break;
                }
            }
            let _ = delivered_must;
            let _ = may;
            if let Some(miss) = first_missing {
                // a must-frame was not delivered at its position
                let later_delivered = reals.iter().any(|r| r.id > miss.id);
                if later_delivered {
                    // known shape: an ephemeral frame that was broadcast to this follower is
                    // dropped by the live task's `id <= last scanned id` dedupe because the
                    // historical scan saw a stored frame appended after it
                    let miss_ephemeral = miss.ttl == Some(TTL::Ephemeral);
                    let scanned_newer = self.appends.iter().any(|a| {
                        !a.spec_ephemeral
                            && a.frame.as_ref().map(|fr| fr.id > miss.id && reals.iter().any(|r| r.id == fr.id)).unwrap_or(false)
                            && match (a.t_committed, f.t_scanned) {
                                (Some(tc), Some(ts)) => tc <= ts,
                                (Some(_), None) => true,
                                _ => false,
                            }
                    });
                    if miss_ephemeral && scanned_newer {
                        return violation(
                            "follow/gap:ephemeral-behind-scanned",
                            format!(
                                "{} was never sent the ephemeral {} (appended after it subscribed) because its historical scan already covered a stored frame with a larger id; received [{}]",
                                desc,
                                fmt_frame(miss),
                                reals.iter().map(|r| r.id.to_string()).collect::<Vec<_>>().join(",")
                            ),
                        );
                    }
                    return violation(
                        "follow/gap",
                        format!("{} was never sent {} although it received later frames [{}]", desc, fmt_frame(miss), reals.iter().map(|r| r.id.to_string()).collect::<Vec<_>>().join(",")),
                    );
                }
                if !f.closed {
                    // still open at final quiescence: it will never get this frame
                    let pulses_after = f.got.iter().rev().take_while(|x| is_synthetic(x) && x.topic == "xs.pulse").count();
                    let class = if lagged && f.spec.heartbeat > 0 { "follow/zombie-heartbeat" } else { "follow/missing" };
                    return violation(
                        class,
                        format!(
                            "{} has an open stream at final quiescence but was never sent {} (delivered [{}], {} trailing pulses, fell {} frames behind)",
                            desc,
                            fmt_frame(miss),
                            reals.iter().map(|r| r.id.to_string()).collect::<Vec<_>>().join(","),
                            pulses_after,
                            f.max_pending
                        ),
                    );
                }
                // closed with a gap at the end: only a consumer that fell behind may be cut off
                if !f.spec.nofollow && !lagged {
                    return violation(
                        "follow/closed-early",
                        format!("{}: the stream ended before {} although the follower never fell more than {} frames behind", desc, fmt_frame(miss), f.max_pending),
                    );
                }
                self.w.probes.entry("lag:cut-off".to_string()).and_modify(|x| *x += 1).or_insert(1);
            } else {
                // all must frames (up to the limit) delivered
                if let Some(n) = limit {
                    if reals.len() >= n {
                        if !f.closed {
                            return violation("follow/limit-not-closed", format!("{} received its {} frames but the stream is still open", desc, n));
                        }
                        self.w.probes.entry("limit:reached".to_string()).and_modify(|x| *x += 1).or_insert(1);
                        let from_hist = self.pre.iter().filter(|p| reals.iter().any(|r| r.id == p.id)).count();
                        if from_hist > 0 && from_hist < n {
                            self.w.probes.entry("limit:split-history-live".to_string()).and_modify(|x| *x += 1).or_insert(1);
                        }
                        if from_hist == n {
                            self.w.probes.entry("limit:all-history".to_string()).and_modify(|x| *x += 1).or_insert(1);
                        }
                    } else if f.closed && !f.spec.nofollow && !lagged {
                        return violation("follow/closed-early", format!("{}: stream ended after {} of {} frames", desc, reals.len(), n));
                    }
                } else if f.closed && !f.spec.nofollow && !lagged {
                    return violation("follow/closed-early", format!("{}: the stream ended although the follower kept up", desc));
                }
                if f.spec.nofollow && !f.closed {
                    return violation("follow/nofollow-open", format!("{}: a non-following read never ended", desc));
                }
            }
            // threshold: exactly one iff following from history without a limit (and the replay completed)
            let th: Vec<usize> = f.got.iter().enumerate().filter(|(_, x)| x.topic == "xs.threshold" && is_synthetic(x)).map(|(i, _)| i).collect();
            let wants_threshold = !f.spec.nofollow && !f.spec.tail && limit.is_none();
            if th.len() > 1 {
                return violation("follow/threshold-count", format!("{} received {} thresholds", desc, th.len()));
            }
            if wants_threshold && th.is_empty() && (!f.closed) {
                return violation("follow/threshold-missing", format!("{} never received its threshold (stream open at final quiescence)", desc));
            }
            if let Some(ti) = th.first() {
                self.w.probes.entry("threshold:seen".to_string()).and_modify(|x| *x += 1).or_insert(1);
                // nothing that came through the live task precedes the threshold
                for (pos, x) in f.got.iter().enumerate() {
                    if pos < *ti && !is_synthetic(x) && !f.hist_delivering.contains(&x.id) {
                        return violation(
                            "follow/threshold-late",
                            format!("{} received {} from the live subscription before the threshold marker", desc, fmt_frame(x)),
                        );
                    }
                }
                // everything that existed when the read began comes before it
                let d = f.started_at.unwrap();
                let mut existed: Vec<&Frame> = self.pre.iter().collect();
                for a in &self.appends {
                    if let (Some(fr), Some(tc)) = (&a.frame, a.t_committed) {
                        if tc < d && !a.spec_ephemeral {
                            existed.push(fr);
                        }
                    }
                }
                for e in existed {
                    let in_scope = f.ctx.map(|c| e.context_id == c).unwrap_or(true) && f.last_id.map(|l| e.id > l).unwrap_or(true);
                    if !in_scope {
                        continue;
                    }
                    if let Some(pos) = f.got.iter().position(|x| x.id == e.id) {
                        if pos > *ti {
                            return violation("follow/threshold-early", format!("{} received the threshold before {} which existed when the read began", desc, fmt_frame(e)));
                        }
                    }
                }
            }
            // pulses only between/after frames of a heartbeat follower; count them for reach
            let pulses = f.got.iter().filter(|x| x.topic == "xs.pulse" && is_synthetic(x)).count();
            if pulses > 0 {
                self.w.probes.entry("pulse:seen".to_string()).and_modify(|x| *x += 1).or_insert(1);
            }
        }
        Ok(())
    }
}

fn policy_of(name: &str, horizon: usize) -> Policy {
    match name {
        "burst" => Policy::Burst(70),
        "pct" => Policy::Pct { changes: 3, horizon },
        "starve-consume" => Policy::Starve("consume".into()),
        "starve-live" => Policy::Starve("task".into()),
        "starve-history" => Policy::Starve("history".into()),
        _ => Policy::Uniform,
    }
}

pub fn exec_value(planv: &serde_json::Value, tag: &str) -> (RunResult, Vec<String>) {
    let empty = |h: String| RunResult { violation: None, harness: Some(h), probes: BTreeMap::new(), decisions: 0, sim_ms: 0, trace: vec![], choices: vec![], plan_patch: None };
    let plan: Plan = match serde_json::from_value(planv.clone()) {
        Ok(p) => p,
        Err(e) => return (empty(format!("bad plan: {}", e)), vec![]),
    };
    let mut run = match Run::new(&plan, tag) {
        Ok(r) => r,
        Err(Stop::Harness(h)) => return (empty(h), vec![]),
        Err(Stop::Violation(v)) => {
            return (RunResult { violation: Some(v), harness: None, probes: BTreeMap::new(), decisions: 0, sim_ms: 0, trace: vec![], choices: vec![], plan_patch: None }, vec![])
        }
    };
    let explicit = plan.choices.clone();
    let replaying = !explicit.is_empty();
    let mut chooser = Chooser::new(plan.seed ^ 0x5ced, if replaying { Policy::Starve("\u{0}".into()) } else { policy_of(&plan.policy, 120) }, explicit);
    if replaying {
        chooser.first_after_explicit = true;
    }
    let res = std::panic::catch_unwind(std::panic::AssertUnwindSafe(|| run.run(&mut chooser)));
    let (violation, harness) = match res {
        Ok(Ok(())) => (None, None),
        Ok(Err(Stop::Violation(v))) => (Some(v), None),
        Ok(Err(Stop::Harness(h))) => (None, Some(h)),
        Err(p) => (Some(Violation::new("panic", format!("panicked: {}", crate::world::panic_msg(&p)))), None),
    };
    let Run { w, store, followers, .. } = run;
    drop(followers);
    let mut w = w;
    let _ = w.close_store_after_end(store);
    let (probes, decisions, sim_ms, trace) = w.finish();
    (RunResult { violation, harness, probes, decisions, sim_ms, trace, choices: vec![], plan_patch: None }, chooser.record)
}
