//! E5: the service layer. The three serve loops of `xs serve` (handlers, generators, commands)
//! run for real on the stepped runtime with the real nushell engine; their OS threads (engine
//! workers, generator workers, command calls, history threads, gc) are scheduled actors. The
//! operator issues workload steps; between them the seeded chooser interleaves everything
//! until the system is idle. Oracles read the complete append log (a tail follower attached
//! before anything else, so ephemeral frames are seen too).

use std::collections::{BTreeMap, BTreeSet, HashMap};

use scru128::Scru128Id;
use serde::{Deserialize, Serialize};
use xs::store::{FollowOption, Frame, ReadOptions, Store, TTL, ZERO_CONTEXT};

use crate::model::{fmt_frame, short_ctx};
use crate::props::RunResult;
use crate::rng::Rng;
use crate::world::{harness, violation, Chooser, Picked, Policy, Stop, Violation, World, R};

#[derive(Serialize, Deserialize, Clone, Debug, PartialEq)]
pub enum Resume {
    Tail,
    Head,
    /// after the k-th frame of the log (mod len)
    After(usize),
}

#[derive(Serialize, Deserialize, Clone, Debug, PartialEq)]
pub enum Ret {
    Nothing,
    Record,
    Str,
    Int,
    Float,
    Bool,
    List,
    Binary,
    /// returns the triggering frame itself (a record that looks like a frame)
    EchoFrame,
}

#[derive(Serialize, Deserialize, Clone, Debug, PartialEq)]
pub enum Invalid {
    ParseError,
    NoRun,
    ZeroArgs,
    MissingHash,
}

#[derive(Serialize, Deserialize, Clone, Debug, PartialEq)]
pub struct HScript {
    pub resume: Resume,
    pub pulse: Option<u64>,
    /// explicit appends: (with --meta, ttl string, --context other)
    pub appends: Vec<(bool, Option<String>, bool)>,
    pub ret: Ret,
    pub suffix: Option<String>,
    pub ret_ttl: Option<String>,
    /// fails (when the trigger says so) before the k-th explicit append (k = appends.len() means after all of them)
    pub fail_at: Option<usize>,
    pub invalid: Option<Invalid>,
    /// the script appends its own `<name>.unregister` when the trigger asks for it
    #[serde(default)]
    pub self_stop: bool,
    /// explicit appends use string / record / binary input in turn
    #[serde(default)]
    pub rich: bool,
    /// the script reports which contexts `.cat` shows it
    #[serde(default)]
    pub cat_probe: bool,
}

#[derive(Serialize, Deserialize, Clone, Debug, PartialEq)]
pub enum GScript {
    /// a single string value
    Single(String),
    /// a list value of k strings
    ListValue(usize),
    /// a stream of k strings
    Stream(usize),
    Empty,
    /// duplex echo
    Echo,
    /// duplex echo of the first k inputs, then the pipeline ends (the generator stops and is restarted)
    EchoFirst(usize),
    MissingHash,
    /// the spawn names content that is not valid UTF-8
    NotUtf8,
    /// the spawn names a hash whose content was never stored
    AbsentContent,
}

#[derive(Serialize, Deserialize, Clone, Debug, PartialEq)]
pub struct CScript {
    /// output values: kinds
    pub outputs: Vec<Ret>,
    pub explicit_append: bool,
    pub fail_at: Option<usize>,
    pub suffix: Option<String>,
    pub ttl: Option<String>,
    pub invalid: bool,
    pub uses_env: bool,
    /// the first output value reports which contexts `.cat` shows inside the command
    #[serde(default)]
    pub cat_probe: bool,
    /// after its own `.append` the script feeds a list stream to the streaming `.append`,
    /// which panics the call's worker thread (a fault after a visible side effect)
    #[serde(default)]
    pub panic_after_side: bool,
    /// a single-result script hands its value back through an early `return`
    #[serde(default)]
    pub early_return: bool,
}

#[derive(Serialize, Deserialize, Clone, Debug, PartialEq)]
pub enum SOp {
    Ctx,
    RegHandler {
        name: usize,
        ctx: usize,
        script: HScript,
        watched: bool,
        /// (watched only) `<name>.unregister` is appended while the new instance is between
        /// its start and its subscription
        #[serde(default)]
        race: bool,
    },
    Unreg { name: usize, ctx: usize },
    /// two registrations of the same (context, name) appended back to back, before the serve
    /// loop has reacted to the first
    /// (second = None: the registration is followed at once by `<name>.unregister`)
    DoubleReg { name: usize, ctx: usize, first: HScript, second: Option<HScript> },
    Trigger { ctx: usize, fail: bool, eph: bool, #[serde(default)] selfstop: bool },
    Burst { n: usize, ctx: usize, other_ctx: usize },
    Foreign { ctx: usize },
    SpawnGen { name: usize, ctx: usize, gen: GScript, duplex: bool },
    /// several spawns of one (context, name) appended back to back, before the serve loop has
    /// answered the first
    SpawnBurst { name: usize, ctx: usize, gens: Vec<GScript> },
    /// a duplex spawn with a client that sends input the moment `<name>.start` is visible,
    /// before the generator has taken its input subscription
    SpawnRace { name: usize, ctx: usize, gen: GScript },
    Send { name: usize, ctx: usize, content: usize },
    Define { name: usize, ctx: usize, cmd: CScript },
    Call { name: usize, ctx: usize, arg: usize },
    CallBurst { name: usize, ctx: usize, n: usize },
    Tick { ms: u64 },
    Restart { crash: bool },
    /// let the store's collector work off its queue (head:N evictions, expired frames)
    GcDrain,
    /// a trigger appended while the content store refuses writes (its temp directory is
    /// replaced by a file until the handlers have reacted)
    CasFaultTrigger { ctx: usize },
    /// a command call issued while the content store refuses writes
    CasFaultCall { name: usize, ctx: usize },
    /// a command call during which the content of the first result cannot be stored (its place
    /// in the content store is taken by a directory), while everything else can
    BlockedResultCall { name: usize, ctx: usize },
    /// a crash that strikes right after the operator appended one more frame (nothing has reacted yet)
    CrashAfter { what: usize, name: usize, ctx: usize },
    Quiesce,
}

#[derive(Serialize, Deserialize, Clone, Debug)]
pub struct Plan {
    pub prop: String,
    pub seed: u64,
    pub policy: String,
    pub ops: Vec<SOp>,
    /// every script's `.append` is a step boundary of its thread (knob nu.append.point):
    /// overlapping calls and invocations interleave inside their scripts
    #[serde(default)]
    pub split_append: bool,
    #[serde(default)]
    pub choices: Vec<String>,
}

// the second name has the first one as a prefix, and contains a dot itself
const HNAMES: &[&str] = &["h0", "h0.x"];
const GNAMES: &[&str] = &["g0", "g1"];
const CNAMES: &[&str] = &["c0", "c1"];

pub fn handler_script(name: &str, s: &HScript, other_ctx: &str, after_id: Option<Scru128Id>) -> String {
    match s.invalid {
        Some(Invalid::ParseError) => return "{ run: {|frame| if } ".to_string(),
        Some(Invalid::NoRun) => return "{ resume_from: \"tail\" }".to_string(),
        Some(Invalid::ZeroArgs) => return "{ run: {|| 42 } }".to_string(),
        _ => {}
    }
    let mut out = String::from("{\n");
    match (&s.resume, after_id) {
        (Resume::Tail, _) => out.push_str("  resume_from: \"tail\"\n"),
        (Resume::Head, _) => out.push_str("  resume_from: \"head\"\n"),
        (Resume::After(_), Some(id)) => out.push_str(&format!("  resume_from: \"{}\"\n", id)),
        (Resume::After(_), None) => out.push_str("  resume_from: \"head\"\n"),
    }
    if let Some(p) = s.pulse {
        out.push_str(&format!("  pulse: {}\n", p));
    }
    if s.suffix.is_some() || s.ret_ttl.is_some() {
        out.push_str("  return_options: {");
        if let Some(x) = &s.suffix {
            out.push_str(&format!(" suffix: \"{}\"", x));
        }
        if let Some(t) = &s.ret_ttl {
            out.push_str(&format!(" ttl: \"{}\"", t));
        }
        out.push_str(" }\n");
    }
    out.push_str("  run: {|frame|\n");
    out.push_str("    $env.n = (($env.n? | default 0) + 1)\n");
    out.push_str("    if not ($frame.topic | str starts-with \"trig\") { return }\n");
    out.push_str("    let fail = ($frame.meta?.fail? | default false)\n");
    for (k, (with_meta, ttl, other)) in s.appends.iter().enumerate() {
        if s.fail_at == Some(k) {
            out.push_str(&format!("    if $fail {{ error make {{msg: \"boom{}\"}} }}\n", k));
        }
        let input = if !s.rich {
            format!("\"e{}\"", k)
        } else {
            // (k + number of appends) so that every input kind occurs at every position
            match (k + s.appends.len()) % 4 {
                0 => format!("\"e{}\"", k),
                1 => format!("{{a: {}, b: \"r\"}}", k),
                2 => format!("0x[0{} ff 00]", k),
                // a byte stream that arrives in several short chunks
                _ => format!("[c{}a c{}bb c{}ccc] | each {{|x| $x}} | to text", k, k, k),
            }
        };
        if ttl.as_deref() == Some("nul-topic") {
            // an append the store refuses (NUL in the topic): it is dropped, the rest of the
            // invocation's output is unaffected
            out.push_str(&format!("    {} | .append $\"{}.x{}(char nul)z\"\n", input, name, k));
            continue;
        }
        let mut line = format!("    {} | .append {}.x{}", input, name, k);
        if *with_meta {
            line.push_str(&format!(" --meta {{k: {}, handler_id: \"spoofed\"}}", k));
        }
        if let Some(t) = ttl {
            line.push_str(&format!(" --ttl {}", t));
        }
        if *other {
            line.push_str(&format!(" --context {}", other_ctx));
        }
        out.push_str(&line);
        out.push('\n');
    }
    if s.fail_at == Some(s.appends.len()) {
        out.push_str(&format!("    if $fail {{ error make {{msg: \"boom{}\"}} }}\n", s.appends.len()));
    }
    if s.cat_probe {
        out.push_str(&format!("    (.cat | each {{|f| $f.context_id}} | uniq | sort | str join \",\") | .append {}.catprobe\n", name));
    }
    if s.self_stop {
        out.push_str(&format!("    if ($frame.meta?.selfstop? | default false) {{ \"bye\" | .append {}.unregister }}\n", name));
    }
    out.push_str(match s.ret {
        Ret::Nothing => "    null\n",
        Ret::Record => "    {n: $env.n, saw: $frame.id, topic: $frame.topic}\n",
        Ret::Str => "    $\"n=($env.n) saw=($frame.id)\"\n",
        Ret::Int => "    $env.n\n",
        Ret::Float => "    1.5\n",
        Ret::Bool => "    true\n",
        Ret::List => "    [$env.n $frame.id]\n",
        Ret::Binary => "    0x[01 02 ff]\n",
        Ret::EchoFrame => "    $frame\n",
    });
    out.push_str("  }\n}\n");
    out
}

pub fn gen_expr(g: &GScript) -> Option<String> {
    match g {
        GScript::Single(s) => Some(format!("\"{}\"", s)),
        GScript::ListValue(k) => Some(format!("[{}]", (0..*k).map(|i| format!("\"v{}\"", i)).collect::<Vec<_>>().join(" "))),
        GScript::Stream(k) => Some(format!("[{}] | each {{|x| $x}}", (0..*k).map(|i| format!("\"s{}\"", i)).collect::<Vec<_>>().join(" "))),
        GScript::Empty => Some("[] | each {|x| $x}".to_string()),
        GScript::Echo => Some("each {|x| $\"hi: ($x)\"}".to_string()),
        GScript::EchoFirst(k) => Some(format!("each {{|x| $\"hi: ($x)\"}} | first {}", k)),
        GScript::MissingHash | GScript::NotUtf8 | GScript::AbsentContent => None,
    }
}

pub fn gen_outputs(g: &GScript) -> Vec<String> {
    match g {
        GScript::Single(s) => vec![s.clone()],
        GScript::ListValue(k) => (0..*k).map(|i| format!("v{}", i)).collect(),
        GScript::Stream(k) => (0..*k).map(|i| format!("s{}", i)).collect(),
        _ => vec![],
    }
}

fn ret_literal(r: &Ret, i: usize) -> (String, serde_json::Value) {
    match r {
        Ret::Str => (format!("\"o{}\"", i), serde_json::json!(format!("o{}", i))),
        Ret::Int => (format!("{}", 100 + i), serde_json::json!(100 + i)),
        Ret::Float => ("2.5".to_string(), serde_json::json!(2.5)),
        Ret::Bool => ("false".to_string(), serde_json::json!(false)),
        Ret::List => (format!("[{} \"z\"]", i), serde_json::json!([i, "z"])),
        Ret::Record => (format!("{{k: {}, leak: $leak}}", i), serde_json::json!({"k": i, "leak": 1})),
        Ret::Binary => ("0x[aa]".to_string(), serde_json::Value::Null),
        Ret::Nothing | Ret::EchoFrame => ("null".to_string(), serde_json::Value::Null),
    }
}

pub fn cmd_script(name: &str, c: &CScript) -> String {
    if c.invalid {
        return "{ run: {|frame| let x = } }".to_string();
    }
    let mut out = String::from("{\n");
    if c.suffix.is_some() || c.ttl.is_some() {
        out.push_str("  return_options: {");
        if let Some(x) = &c.suffix {
            out.push_str(&format!(" suffix: \"{}\"", x));
        }
        if let Some(t) = &c.ttl {
            out.push_str(&format!(" ttl: \"{}\"", t));
        }
        out.push_str(" }\n");
    }
    out.push_str("  run: {|frame|\n");
    out.push_str("    let leak = (($env.leak? | default 0) + 1)\n");
    out.push_str("    $env.leak = $leak\n");
    if c.explicit_append {
        if c.outputs.len() % 2 == 0 {
            // the streaming `.append`: a byte stream that arrives in several short chunks
            out.push_str(&format!("    [s1a s1bb s1ccc] | each {{|x| $x}} | to text | .append {}.side --meta {{note: \"x\"}}\n", name));
        } else {
            out.push_str(&format!("    \"side\" | .append {}.side --meta {{note: \"x\"}}\n", name));
        }
    }
    if c.panic_after_side {
        out.push_str(&format!("    [p q] | each {{|x| $x}} | .append {}.boom\n", name));
    }
    let mut items: Vec<String> = c.outputs.iter().enumerate().map(|(i, r)| ret_literal(r, i).0).collect();
    if c.cat_probe {
        items.insert(0, "(.cat | each {|f| $f.context_id} | uniq | sort | str join \",\")".to_string());
    }
    match c.fail_at {
        Some(p) => {
            out.push_str(&format!("    let items = [{}]\n", items.join(" ")));
            out.push_str(&format!("    $items | enumerate | each {{|it| if $it.index == {} {{ error make {{msg: \"cmdboom\"}} }}; $it.item }}\n", p));
        }
        None => {
            if items.len() == 1 && c.early_return {
                out.push_str(&format!("    if $leak > 0 {{ return {} }}\n    \"unreachable\"\n", items[0]));
            } else if items.len() == 1 {
                out.push_str(&format!("    {}\n", items[0]));
            } else {
                out.push_str(&format!("    [{}]\n", items.join(" ")));
            }
        }
    }
    out.push_str("  }\n}\n");
    out
}

#[derive(Clone, Debug)]
struct GenRec {
    id: Scru128Id,
    name: String,
    ctx: Scru128Id,
    gen: GScript,
    duplex: bool,
    /// Some(true) must be accepted, Some(false) must be refused, None: either
    expect_accept: Option<bool>,
}

#[derive(Clone, Debug)]
struct DefRec {
    id: Scru128Id,
    name: String,
    ctx: Scru128Id,
    cmd: CScript,
}

#[derive(Clone, Debug)]
struct CallRec {
    id: Scru128Id,
    name: String,
    ctx: Scru128Id,
    /// definition that must answer (same context), None = no definition in this context
    def: Option<Scru128Id>,
    /// a definition of that name exists in another context only
    foreign_def: bool,
    /// issued while the content store refused writes
    casfault: bool,
    /// the first result's content could not be stored (everything else could)
    blocked_first: bool,
}

#[derive(Clone, Debug)]
struct Instance {
    id: Scru128Id,
    name: String,
    ctx: Scru128Id,
    script: HScript,
    /// index in the log of the register frame
    reg_pos: usize,
    valid: bool,
    /// the id a `resume_from: <id>` script was given
    after: Option<Scru128Id>,
}

struct Run {
    w: World,
    store: Store,
    path: std::path::PathBuf,
    gen: u32,
    engine: xs::nu::Engine,
    plan: Plan,
    ctxs: Vec<Scru128Id>,
    /// complete append history (stored + ephemeral), in broadcast order
    log: Vec<Frame>,
    follower: Option<tokio::sync::mpsc::Receiver<Frame>>,
    /// frames the operator appended (ids), with what it meant
    triggers: Vec<(Scru128Id, Scru128Id, bool)>,
    instances: Vec<Instance>,
    gens: Vec<GenRec>,
    sends: Vec<(Scru128Id, String, Scru128Id, String)>,
    defs: Vec<DefRec>,
    calls: Vec<CallRec>,
    ticks_1s: Vec<usize>,
    /// model: active handler per (ctx, name)
    active: HashMap<(Scru128Id, String), Scru128Id>,
    cas_watch_fail: std::sync::Arc<std::sync::Mutex<Vec<String>>>,
    /// hashes the operator put on a frame without ever storing content for them
    absent: std::collections::HashSet<String>,
    restarts: usize,
    /// log position of the last restart (frames before it were produced by an earlier incarnation)
    last_restart_pos: usize,
    restart_positions: Vec<usize>,
}

thread_local! {
    static ENGINE: std::cell::RefCell<Option<xs::nu::Engine>> = const { std::cell::RefCell::new(None) };
}

fn base_engine() -> Result<xs::nu::Engine, String> {
    ENGINE.with(|e| {
        let mut e = e.borrow_mut();
        if e.is_none() {
            *e = Some(xs::nu::Engine::new().map_err(|x| x.to_string())?);
        }
        Ok(e.as_ref().unwrap().clone())
    })
}

const PASS: &[&str] = &[
    "read.subscribed",
    "live.start",
    "live.recv",
    "append.enter",
    "append.id",
    "append.committed",
    "append.sending",
    "append.broadcast",
    "remove.enter",
    "remove.committed",
    "gc.evict",
];

impl Run {
    fn new(plan: &Plan, tag: &str) -> R<Run> {
        let mut pass: Vec<&'static str> = PASS.to_vec();
        let watched = plan.ops.iter().any(|o| matches!(o, SOp::RegHandler { watched: true, .. }));
        if !watched {
            pass.push("handler.subscribe");
            pass.push("handler.announce");
        }
        if !plan.ops.iter().any(|o| matches!(o, SOp::SpawnRace { .. })) {
            pass.push("gen.started");
        }
        let mut w = World::new(tag, plan.seed ^ 0xe5, &[("nu.append.point", plan.split_append as usize)], &pass);
        let path = w.dir.join("s0");
        std::fs::create_dir_all(&path).map_err(|e| Stop::Harness(e.to_string()))?;
        let store = w.open_store(&path)?;
        let engine = base_engine().map_err(Stop::Harness)?;
        let cas_watch_fail: std::sync::Arc<std::sync::Mutex<Vec<String>>> = Default::default();
        let mut r = Run {
            w,
            store,
            path,
            gen: 0,
            engine,
            plan: plan.clone(),
            ctxs: Vec::new(),
            log: Vec::new(),
            follower: None,
            triggers: Vec::new(),
            instances: Vec::new(),
            gens: Vec::new(),
            sends: Vec::new(),
            defs: Vec::new(),
            calls: Vec::new(),
            ticks_1s: Vec::new(),
            active: HashMap::new(),
            cas_watch_fail,
            absent: Default::default(),
            restarts: 0,
            last_restart_pos: 0,
            restart_positions: Vec::new(),
        };
        r.install_cas_watch();
        r.attach_follower()?;
        r.start_services();
        Ok(r)
    }

    fn install_cas_watch(&mut self) {
        let fails = self.cas_watch_fail.clone();
        let cas_dir = self.path.join("cacache");
        self.w.ctrl.set_note_cb(Some(std::sync::Arc::new(move |site, text| {
            if site == "append.visible" {
                let ok = text.parse::<ssri::Integrity>().ok().map(|h| cacache::read_hash_sync(&cas_dir, &h).is_ok()).unwrap_or(false);
                if !ok {
                    fails.lock().unwrap().push(text.to_string());
                }
            }
        })));
    }

    fn attach_follower(&mut self) -> R<()> {
        let store = self.store.clone();
        let (otx, orx) = std::sync::mpsc::channel();
        self.w.rt().spawn(async move {
            let rx = store.read(ReadOptions::builder().follow(FollowOption::On).tail(true).build()).await;
            let _ = otx.send(rx);
        });
        self.w.step_tokio()?;
        match orx.try_recv() {
            Ok(rx) => {
                self.follower = Some(rx);
                Ok(())
            }
            Err(_) => harness("log follower did not start"),
        }
    }

    fn start_services(&mut self) {
        let (s1, s2, s3) = (self.store.clone(), self.store.clone(), self.store.clone());
        let (e1, e2, e3) = (self.engine.clone(), self.engine.clone(), self.engine.clone());
        let rt = self.w.rt();
        rt.spawn(async move {
            let _ = xs::generators::serve(s1, e1).await;
        });
        rt.spawn(async move {
            let _ = xs::handlers::serve(s2, e2).await;
        });
        rt.spawn(async move {
            let _ = xs::commands::serve(s3, e3).await;
        });
    }

    fn drain_log(&mut self) {
        if let Some(rx) = self.follower.as_mut() {
            while let Ok(f) = rx.try_recv() {
                self.log.push(f);
            }
        }
    }

    fn ctx(&self, k: usize) -> Scru128Id {
        if k == 0 || self.ctxs.is_empty() {
            ZERO_CONTEXT
        } else {
            self.ctxs[(k - 1) % self.ctxs.len()]
        }
    }

    fn op_append(&mut self, f: Frame) -> R<Frame> {
        let r = self.store.append(f).map_err(|e| Stop::Harness(format!("operator append failed: {}", e)))?;
        self.w.ctrl.bump_activity();
        Ok(r)
    }

    /// Let everything run, interleaved by the chooser, until nothing is enabled.
    /// `extra` operator actions (closures applied when picked) are offered as further options.
    fn quiesce(&mut self, chooser: &mut Chooser, mut pending_ops: Vec<Frame>) -> R<()> {
        let mut guard = 0u64;
        loop {
            guard += 1;
            if guard > 200_000 {
                return harness(format!("quiesce does not terminate; actors: {}", self.w.ctrl.describe_actors()));
            }
            self.drain_log();
            let extra: Vec<String> = if pending_ops.is_empty() { vec![] } else { vec!["operator-append".to_string()] };
            let picked = self.w.decide(chooser, &extra, &|e| e.actor_kind != "gc")?;
            match picked {
                Picked::Nothing => {
                    if std::env::var("XS_SIM_DEBUG").is_ok() {
                        eprintln!("quiesce end: actors [{}] runnable={} log={}", self.w.ctrl.describe_actors(), self.w.tokio_runnable(), self.log.len());
                    }
                    break;
                }
                Picked::Extra(_) => {
                    let f = pending_ops.remove(0);
                    let ctx = f.context_id;
                    let is_fail = f.meta.as_ref().and_then(|m| m.get("fail")).and_then(|v| v.as_bool()).unwrap_or(false);
                    let r = self.op_append(f)?;
                    if r.topic.starts_with("trig") {
                        self.triggers.push((r.id, ctx, is_fail));
                    }
                }
                Picked::Ran(_) => {}
            }
            let fails: Vec<String> = std::mem::take(&mut *self.cas_watch_fail.lock().unwrap());
            if let Some(h) = fails.iter().find(|h| !self.absent.contains(*h)) {
                return violation("cas/missing-when-visible", format!("a frame with hash {} became observable while that content was not yet retrievable from the CAS", h));
            }
        }
        self.drain_log();
        Ok(())
    }

    fn cas(&self, s: &str) -> R<ssri::Integrity> {
        self.store.cas_insert_sync(s.as_bytes()).map_err(|e| Stop::Harness(format!("cas_insert_sync: {}", e)))
    }

    fn apply(&mut self, i: usize, op: &SOp, chooser: &mut Chooser) -> R<()> {
        self.w.log(format!("op{} {}", i, short(op)));
        match op {
            SOp::Ctx => {
                let f = self.op_append(Frame::builder("xs.context", ZERO_CONTEXT).build())?;
                self.ctxs.push(f.id);
                self.quiesce(chooser, vec![])?;
            }
            SOp::RegHandler { name, ctx, script, watched, race } => {
                let c = self.ctx(*ctx);
                let n = HNAMES[name % HNAMES.len()];
                let other = self.ctx(ctx + 1);
                let after = match script.resume {
                    Resume::After(k) => {
                        // every other cursor may also be the id of an ephemeral frame: a cursor
                        // whose frame is not (or no longer) in the store
                        let inctx: Vec<&Frame> = self.log.iter().filter(|f| f.context_id == c && (k % 2 == 1 || f.ttl != Some(TTL::Ephemeral))).collect();
                        if inctx.is_empty() {
                            None
                        } else {
                            Some(inctx[k % inctx.len()].id)
                        }
                    }
                    _ => None,
                };
                let text = handler_script(n, script, &other.to_string(), after);
                let hash = if script.invalid == Some(Invalid::MissingHash) { None } else { Some(self.cas(&text)?) };
                let f = self.op_append(Frame::builder(format!("{}.register", n), c).maybe_hash(hash).build())?;
                let valid = script.invalid.is_none();
                self.instances.push(Instance {
                    id: f.id,
                    name: n.to_string(),
                    ctx: c,
                    script: script.clone(),
                    reg_pos: self.log.len(),
                    valid,
                    after,
                });
                if valid {
                    self.active.insert((c, n.to_string()), f.id);
                    self.w.probe("handler:registered");
                } else {
                    self.active.remove(&(c, n.to_string()));
                    self.w.probe("handler:invalid-script");
                }
                if *watched {
                    self.watched_start(chooser, f.id, c, n, *race)?;
                } else {
                    self.quiesce(chooser, vec![])?;
                }
            }
            SOp::DoubleReg { name, ctx, first, second } => {
                let c = self.ctx(*ctx);
                let n = HNAMES[name % HNAMES.len()];
                let other = self.ctx(ctx + 1);
                let mut scripts = vec![first];
                if let Some(s2) = second {
                    scripts.push(s2);
                }
                for script in scripts {
                    let text = handler_script(n, script, &other.to_string(), None);
                    let hash = Some(self.cas(&text)?);
                    let f = self.op_append(Frame::builder(format!("{}.register", n), c).maybe_hash(hash).build())?;
                    self.instances.push(Instance { id: f.id, name: n.to_string(), ctx: c, script: script.clone(), reg_pos: self.log.len(), valid: true, after: None });
                    self.active.insert((c, n.to_string()), f.id);
                }
                if second.is_none() {
                    self.op_append(Frame::builder(format!("{}.unregister", n), c).build())?;
                    self.active.remove(&(c, n.to_string()));
                    self.w.probe("handler:register-then-unregister");
                } else {
                    self.w.probe("handler:double-register");
                }
                self.quiesce(chooser, vec![])?;
            }
            SOp::Unreg { name, ctx } => {
                let c = self.ctx(*ctx);
                let n = HNAMES[name % HNAMES.len()];
                self.op_append(Frame::builder(format!("{}.unregister", n), c).build())?;
                if self.active.remove(&(c, n.to_string())).is_some() {
                    self.w.probe("handler:unregistered");
                }
                self.quiesce(chooser, vec![])?;
            }
            SOp::Trigger { ctx, fail, eph, selfstop } => {
                let c = self.ctx(*ctx);
                if *selfstop {
                    let keys: Vec<(Scru128Id, String)> = self.active.keys().filter(|(cc, _)| *cc == c).cloned().collect();
                    for k in keys {
                        let id = self.active[&k];
                        if self.instances.iter().any(|x| x.id == id && x.script.self_stop && !(*fail && x.script.fail_at.is_some())) {
                            self.active.remove(&k);
                            self.w.probe("handler:self-unregister");
                        }
                    }
                }
                let mut tmeta = serde_json::json!({"fail": fail, "op": i, "selfstop": selfstop});
                if self.plan.prop == "C15" && i % 2 == 0 {
                    // a trigger that carries some other producer's stamp (as the output of
                    // another handler would)
                    tmeta["handler_id"] = serde_json::json!(ZERO_CONTEXT.to_string());
                    self.w.probe("trigger:foreign-stamp");
                }
                let f = self.op_append(
                    Frame::builder(format!("trig.{}", i), c)
                        .meta(tmeta)
                        .maybe_ttl(if *eph { Some(TTL::Ephemeral) } else { None })
                        .build(),
                )?;
                self.triggers.push((f.id, c, *fail));
                self.note_failures(c, *fail);
                self.quiesce(chooser, vec![])?;
            }
            SOp::Burst { n, ctx, other_ctx } => {
                let c = self.ctx(*ctx);
                let o = self.ctx(*other_ctx);
                let mut frames = Vec::new();
                for k in 0..*n {
                    let cc = if k % 3 == 2 { o } else { c };
                    frames.push(Frame::builder(format!("trig.{}.{}", i, k), cc).meta(serde_json::json!({"fail": false, "op": i})).build());
                }
                self.w.probe("handler:burst");
                self.quiesce(chooser, frames)?;
            }
            SOp::Foreign { ctx } => {
                let c = self.ctx(*ctx);
                self.op_append(Frame::builder(format!("noise.{}", i), c).meta(serde_json::json!({"op": i})).build())?;
                self.quiesce(chooser, vec![])?;
            }
            SOp::Tick { ms } => {
                self.drain_log();
                if *ms >= 1000 {
                    self.ticks_1s.push(self.log.len());
                }
                self.w.tick(*ms)?;
                self.quiesce(chooser, vec![])?;
            }
            SOp::SpawnGen { name, ctx, gen, duplex } => {
                self.spawn_gen(i, *name, *ctx, gen, *duplex)?;
                self.quiesce(chooser, vec![])?;
            }
            SOp::SpawnRace { name, ctx, gen } => {
                self.spawn_gen(i, *name, *ctx, gen, true)?;
                let sid = self.gens.last().map(|g| g.id.to_u128()).unwrap_or(0);
                let c = self.ctx(*ctx);
                let n = GNAMES[name % GNAMES.len()];
                let mut raced = false;
                let mut guard = 0u64;
                loop {
                    guard += 1;
                    if guard > 200_000 {
                        return harness("spawn race does not terminate");
                    }
                    self.drain_log();
                    let at_start = !raced && self.w.ctrl.aparked().iter().any(|(_, s, d)| *s == "gen.started" && *d == sid);
                    let extra: Vec<String> = if at_start { vec!["race-send".to_string()] } else { vec![] };
                    match self.w.decide(chooser, &extra, &|e| e.actor_kind != "gc")? {
                        Picked::Nothing => break,
                        Picked::Extra(_) => {
                            let text = format!("input-race-{}", i);
                            let hash = self.cas(&text)?;
                            let f = self.op_append(Frame::builder(format!("{}.send", n), c).hash(hash).build())?;
                            self.sends.push((f.id, n.to_string(), c, text));
                            raced = true;
                            self.w.probe("gen:send-races-input-subscription");
                        }
                        Picked::Ran(_) => {}
                    }
                }
                self.drain_log();
            }
            SOp::SpawnBurst { name, ctx, gens } => {
                for (k, gen) in gens.iter().enumerate() {
                    let duplex = matches!(gen, GScript::Echo | GScript::EchoFirst(_));
                    self.spawn_gen(i + k, *name, *ctx, gen, duplex)?;
                }
                self.w.probe("gen:spawn-burst");
                self.quiesce(chooser, vec![])?;
            }
            SOp::Send { name, ctx, content } => {
                let c = self.ctx(*ctx);
                let n = GNAMES[name % GNAMES.len()];
                // at least 4 bytes: nushell's byte-stream chunker holds back chunks shorter than that
                // until the next chunk arrives (it may be an incomplete UTF-8 sequence)
                let text = format!("input-{}-{}", content, i);
                let hash = self.cas(&text)?;
                let f = self.op_append(Frame::builder(format!("{}.send", n), c).hash(hash).build())?;
                self.sends.push((f.id, n.to_string(), c, text));
                self.w.probe("gen:send");
                self.quiesce(chooser, vec![])?;
            }
            SOp::Define { name, ctx, cmd } => {
                let c = self.ctx(*ctx);
                let n = CNAMES[name % CNAMES.len()];
                let text = cmd_script(n, cmd);
                let hash = self.cas(&text)?;
                let f = self.op_append(Frame::builder(format!("{}.define", n), c).hash(hash).build())?;
                self.defs.push(DefRec { id: f.id, name: n.to_string(), ctx: c, cmd: cmd.clone() });
                self.w.probe(if cmd.invalid { "cmd:invalid-define" } else { "cmd:defined" });
                self.quiesce(chooser, vec![])?;
            }
            SOp::Call { name, ctx, arg } => {
                let c = self.ctx(*ctx);
                let n = CNAMES[name % CNAMES.len()];
                self.do_call(n, c, *arg)?;
                self.quiesce(chooser, vec![])?;
            }
            SOp::CallBurst { name, ctx, n: count } => {
                let c = self.ctx(*ctx);
                let n = CNAMES[name % CNAMES.len()];
                for k in 0..*count {
                    self.do_call(n, c, k)?;
                }
                self.w.probe("cmd:overlapping-calls");
                self.quiesce(chooser, vec![])?;
            }
            SOp::Quiesce => self.quiesce(chooser, vec![])?,
            SOp::Restart { crash } => self.restart(chooser, *crash)?,
            SOp::CasFaultTrigger { ctx } => {
                let c = self.ctx(*ctx);
                let tmp = self.path.join("cacache").join("tmp");
                let bak = self.path.join("cacache").join("tmp.sim-away");
                let _ = std::fs::create_dir_all(&tmp);
                std::fs::rename(&tmp, &bak).map_err(|e| Stop::Harness(format!("cas fault: {}", e)))?;
                std::fs::write(&tmp, b"not a directory").map_err(|e| Stop::Harness(format!("cas fault: {}", e)))?;
                // every active handler of the context that writes content fails on this trigger
                let keys: Vec<(Scru128Id, String)> = self.active.keys().filter(|(cc, _)| *cc == c).cloned().collect();
                for k in keys {
                    let id = self.active[&k];
                    if self.instances.iter().any(|x| x.id == id && writes_content(&x.script, false)) {
                        self.active.remove(&k);
                        self.w.probe("handler:content-write-failed");
                    }
                }
                let f = self.op_append(Frame::builder(format!("trig.{}", i), c).meta(serde_json::json!({"fail": false, "op": i, "selfstop": false, "casfault": true})).build())?;
                self.triggers.push((f.id, c, false));
                let r = self.quiesce(chooser, vec![]);
                let _ = std::fs::remove_file(&tmp);
                std::fs::rename(&bak, &tmp).map_err(|e| Stop::Harness(format!("cas fault restore: {}", e)))?;
                r?;
                self.w.probe("fault:cas-write-refused");
            }
            SOp::BlockedResultCall { name, ctx } => {
                let c = self.ctx(*ctx);
                let n = CNAMES[name % CNAMES.len()];
                // the first value the latest valid definition yields, if its rendering is known
                let first: Option<String> = self.defs.iter().rev().find(|d| d.name == n && d.ctx == c && !d.cmd.invalid).and_then(|d| {
                    if d.cmd.fail_at.is_some() {
                        None
                    } else if d.cmd.cat_probe {
                        Some(serde_json::json!(c.to_string()).to_string())
                    } else {
                        match d.cmd.outputs.first() {
                            Some(r @ (Ret::Str | Ret::Int | Ret::Float | Ret::Bool)) => Some(ret_literal(r, 0).1.to_string()),
                            _ => None,
                        }
                    }
                });
                let blocked = match &first {
                    Some(text) => {
                        let h = ssri::Integrity::from(text.as_bytes());
                        if self.store.cas_read_sync(&h).is_ok() {
                            None
                        } else {
                            let (algo, hex) = h.to_hex();
                            let p = self.path.join("cacache").join("content-v2").join(algo.to_string()).join(&hex[0..2]).join(&hex[2..4]).join(&hex[4..]);
                            std::fs::create_dir_all(&p).map_err(|e| Stop::Harness(format!("block content: {}", e)))?;
                            Some(p)
                        }
                    }
                    None => None,
                };
                self.do_call_x(n, c, 9, false)?;
                if blocked.is_some() {
                    if let Some(last) = self.calls.last_mut() {
                        last.blocked_first = true;
                    }
                    self.w.probe("fault:result-content-blocked");
                }
                let r = self.quiesce(chooser, vec![]);
                if let Some(p) = blocked {
                    let _ = std::fs::remove_dir(&p);
                }
                r?;
            }
            SOp::CasFaultCall { name, ctx } => {
                let c = self.ctx(*ctx);
                let n = CNAMES[name % CNAMES.len()];
                let tmp = self.path.join("cacache").join("tmp");
                let bak = self.path.join("cacache").join("tmp.sim-away");
                let _ = std::fs::create_dir_all(&tmp);
                std::fs::rename(&tmp, &bak).map_err(|e| Stop::Harness(format!("cas fault: {}", e)))?;
                std::fs::write(&tmp, b"not a directory").map_err(|e| Stop::Harness(format!("cas fault: {}", e)))?;
                let r = self.do_call_x(n, c, 7, true).and_then(|_| self.quiesce(chooser, vec![]));
                let _ = std::fs::remove_file(&tmp);
                std::fs::rename(&bak, &tmp).map_err(|e| Stop::Harness(format!("cas fault restore: {}", e)))?;
                r?;
                self.w.probe("fault:cas-write-refused");
            }
            SOp::GcDrain => {
                let n = self.w.run_kind_until_idle("gc", 100_000)?;
                if n > 0 {
                    self.w.probe("gc:drained-in-service-run");
                }
                self.quiesce(chooser, vec![])?;
            }
            SOp::CrashAfter { what, name, ctx } => {
                let c = self.ctx(*ctx);
                match what % 3 {
                    0 => {
                        let n = HNAMES[name % HNAMES.len()];
                        self.op_append(Frame::builder(format!("{}.unregister", n), c).build())?;
                        if self.active.remove(&(c, n.to_string())).is_some() {
                            self.w.probe("restart:crash-after-unregister");
                        }
                    }
                    1 => {
                        let f = self.op_append(Frame::builder(format!("trig.{}", i), c).meta(serde_json::json!({"fail": false, "op": i})).build())?;
                        self.triggers.push((f.id, c, false));
                    }
                    _ => {
                        let n = CNAMES[name % CNAMES.len()];
                        self.do_call(n, c, 7)?;
                        // the server goes down before it can answer: the call stays unanswered
                        if let Some(last) = self.calls.last_mut() {
                            last.foreign_def = true;
                            last.def = None;
                        }
                    }
                }
                self.restart(chooser, true)?;
            }
            _ => {}
        }
        Ok(())
    }

    /// Stop the server (cleanly at quiescence, or by a crash in the middle of whatever is going
    /// on) and start it again on the same store: byte copy of the directory, new runtime, new
    /// serve loops. Threads of the old incarnation run free against the old directory.
    fn restart(&mut self, chooser: &mut Chooser, crash: bool) -> R<()> {
        if crash {
            // a few more steps of whatever is pending, then the lights go out
            let steps = chooser.rng.below(6);
            for _ in 0..steps {
                self.drain_log();
                if let Picked::Nothing = self.w.decide(chooser, &[], &|e| e.actor_kind != "gc")? {
                    break;
                }
            }
            self.w.probe("restart:crash");
        } else {
            self.quiesce(chooser, vec![])?;
            self.w.probe("restart:clean");
        }
        self.drain_log();
        self.gen += 1;
        let newp = self.w.dir.join(format!("s{}", self.gen));
        crate::e3::copy_dir_stable(&self.path, &newp).map_err(Stop::Harness)?;
        // the old incarnation dies
        self.follower = None;
        self.w.ctrl.new_generation();
        self.w.replace_runtime();
        let old = std::mem::replace(&mut self.store, self.w.open_store(&newp)?);
        old.verif_shutdown();
        let oldp = std::mem::replace(&mut self.path, newp);
        std::thread::spawn(move || {
            drop(old);
            let _ = std::fs::remove_dir_all(oldp);
        });
        self.install_cas_watch();
        // frames that were stored but not yet forwarded to the log follower
        let known: std::collections::HashSet<Scru128Id> = self.log.iter().map(|f| f.id).collect();
        let missing: Vec<Frame> = self.store.read_sync(None, None, None).filter(|f| !known.contains(&f.id)).collect();
        for f in missing {
            self.log.push(f);
        }
        self.log.sort_by_key(|f| f.id);
        self.restarts += 1;
        self.restart_positions.push(self.log.len());
        self.last_restart_pos = self.log.len();
        self.attach_follower()?;
        self.start_services();
        self.quiesce(chooser, vec![])?;
        Ok(())
    }

    fn do_call(&mut self, n: &str, c: Scru128Id, arg: usize) -> R<()> {
        self.do_call_x(n, c, arg, false)
    }

    fn do_call_x(&mut self, n: &str, c: Scru128Id, arg: usize, casfault: bool) -> R<()> {
        let f = self.op_append(Frame::builder(format!("{}.call", n), c).meta(serde_json::json!({"arg": arg})).build())?;
        let def = self.defs.iter().rev().find(|d| d.name == n && d.ctx == c && !d.cmd.invalid).map(|d| d.id);
        let foreign_def = def.is_none() && self.defs.iter().any(|d| d.name == n && d.ctx != c && !d.cmd.invalid);
        self.calls.push(CallRec { id: f.id, name: n.to_string(), ctx: c, def, foreign_def, casfault, blocked_first: false });
        self.w.probe(if def.is_some() { "cmd:call" } else { "cmd:call-undefined" });
        Ok(())
    }

    /// A failing trigger stops every active handler of its context whose script fails on it.
    fn note_failures(&mut self, c: Scru128Id, fail: bool) {
        if !fail {
            return;
        }
        let keys: Vec<(Scru128Id, String)> = self.active.keys().filter(|(cc, _)| *cc == c).cloned().collect();
        for k in keys {
            let id = self.active[&k];
            if let Some(inst) = self.instances.iter().find(|x| x.id == id) {
                if inst.script.fail_at.is_some() {
                    self.active.remove(&k);
                    self.w.probe("handler:closure-error");
                }
            }
        }
    }

    /// C16: a client that appends as soon as it sees `<name>.registered`.
    fn watched_start(&mut self, chooser: &mut Chooser, hid: Scru128Id, c: Scru128Id, name: &str, race: bool) -> R<()> {
        let mut probed = false;
        let mut raced = !race;
        let mut guard = 0;
        loop {
            guard += 1;
            if guard > 100_000 {
                return harness("watched start does not terminate");
            }
            self.drain_log();
            if !probed {
                let visible = self
                    .store
                    .read_sync(None, None, Some(c))
                    .any(|f| f.topic == format!("{}.registered", name) && f.meta.as_ref().and_then(|m| m.get("handler_id")).and_then(|v| v.as_str()) == Some(&hid.to_string()));
                if visible {
                    // the client reacts at once
                    let f = self.op_append(Frame::builder("trig.watch", c).meta(serde_json::json!({"fail": false, "watch": hid.to_string()})).build())?;
                    self.triggers.push((f.id, c, false));
                    probed = true;
                    self.w.probe("handler:probe-after-registered");
                }
            }
            // a second client un-registers the name while the instance is about to subscribe
            let at_subscribe = !raced && self.w.ctrl.aparked().iter().any(|(_, s, d)| *s == "handler.subscribe" && *d == hid.to_u128());
            let extra: Vec<String> = if at_subscribe { vec!["race-unregister".to_string()] } else { vec![] };
            let picked = self.w.decide(chooser, &extra, &|e| e.actor_kind != "gc")?;
            match picked {
                Picked::Nothing => break,
                Picked::Extra(_) => {
                    self.op_append(Frame::builder(format!("{}.unregister", name), c).build())?;
                    self.active.remove(&(c, name.to_string()));
                    raced = true;
                    self.w.probe("handler:unregister-races-subscription");
                }
                _ => {}
            }
        }
        self.drain_log();
        Ok(())
    }

    // -----------------------------------------------------------------------------------
    // oracles over the complete log

    fn meta_str(f: &Frame, key: &str) -> Option<String> {
        f.meta.as_ref().and_then(|m| m.get(key)).and_then(|v| v.as_str()).map(|s| s.to_string())
    }

    fn content(&self, f: &Frame) -> Option<Vec<u8>> {
        f.hash.as_ref().and_then(|h| self.store.cas_read_sync(h).ok())
    }

    fn check_handlers(&mut self) -> R<()> {
        let log = self.log.clone();
        let pos_of: HashMap<Scru128Id, usize> = log.iter().enumerate().map(|(i, f)| (f.id, i)).collect();
        for inst in self.instances.clone() {
            let hid = inst.id.to_string();
            let name = inst.name.clone();
            let Some(&rpos) = pos_of.get(&inst.id) else { continue };
            let registered: Vec<&Frame> = log.iter().filter(|f| f.topic == format!("{}.registered", name) && f.context_id == inst.ctx && Self::meta_str(f, "handler_id").as_deref() == Some(&hid)).collect();
            let unregistered: Vec<&Frame> = log.iter().filter(|f| f.topic == format!("{}.unregistered", name) && Self::meta_str(f, "handler_id").as_deref() == Some(&hid)).collect();
            let desc = format!("handler {} (id {}, context {}, resume {:?})", name, inst.id, short_ctx(&inst.ctx), inst.script.resume);
            if !inst.valid {
                if !registered.is_empty() {
                    return violation("lifecycle/invalid-registered", format!("{} has an invalid script but was announced as registered", desc));
                }
                if unregistered.len() != 1 || Self::meta_str(unregistered[0], "error").is_none() {
                    return violation(
                        "lifecycle/invalid-not-reported",
                        format!("{} has an invalid script: expected exactly one {}.unregistered carrying the error, found {}", desc, name, unregistered.len()),
                    );
                }
                if unregistered[0].context_id != inst.ctx {
                    return violation("ctx/leak:handler-lifecycle", format!("{}: its unregistered frame landed in context {}", desc, short_ctx(&unregistered[0].context_id)));
                }
                self.w.probe("lifecycle:invalid-reported");
                continue;
            }
            if registered.len() != 1 {
                return violation("lifecycle/registered-count", format!("{}: {} {}.registered frames carry its id", desc, registered.len(), name));
            }
            if unregistered.len() > 1 {
                return violation("lifecycle/unregistered-count", format!("{}: {} {}.unregistered frames carry its id", desc, unregistered.len(), name));
            }
            let reg_pos = pos_of[&registered[0].id];
            let stop_pos = unregistered.first().map(|u| pos_of[&u.id]);
            // a stop needs a reason: a later register / unregister of exactly its own name in its
            // own context, or an error raised by one of its invocations
            if let Some(u) = unregistered.first() {
                let cited = Self::meta_str(u, "frame_id").and_then(|t| log.iter().find(|f| f.id.to_string() == t));
                let has_error = Self::meta_str(u, "error").is_some();
                let ok = match cited {
                    Some(c) if has_error => c.context_id == inst.ctx,
                    Some(c) => c.context_id == inst.ctx && c.id > inst.id && (c.topic == format!("{}.register", name) || c.topic == format!("{}.unregister", name)),
                    None => false,
                };
                if !ok {
                    return violation(
                        "lifecycle/spurious-stop",
                        format!("{} announced its stop ({}) citing {}, which is neither a later register / unregister of its own name in its context nor a failing invocation", desc, fmt_frame(u), cited.map(fmt_frame).unwrap_or_else(|| "no frame".into())),
                    );
                }
            }
            // every frame this instance produced
            let outputs: Vec<(usize, &Frame)> = log
                .iter()
                .enumerate()
                .filter(|(_, f)| Self::meta_str(f, "handler_id").as_deref() == Some(&hid) && !f.topic.ends_with(".registered") && !f.topic.ends_with(".unregistered"))
                .collect();
            for (p, f) in &outputs {
                if f.context_id != inst.ctx {
                    return violation("ctx/leak:handler-output", format!("{} produced {} outside its own context", desc, fmt_frame(f)));
                }
                if let Some(sp) = stop_pos {
                    if *p > sp {
                        return violation("lifecycle/output-after-stop", format!("{} produced {} after its {}.unregistered", desc, fmt_frame(f), name));
                    }
                }
                if let Some(h) = &f.hash {
                    if self.store.cas_read_sync(h).is_err() {
                        return violation("output/content-missing", format!("{} produced {} whose content is not in the CAS", desc, fmt_frame(f)));
                    }
                }
            }
            // per trigger: explicit appends in call order, then the return frame
            let mut by_trigger: BTreeMap<String, Vec<&Frame>> = BTreeMap::new();
            for (_, f) in &outputs {
                if let Some(t) = Self::meta_str(f, "frame_id") {
                    by_trigger.entry(t).or_default().push(f);
                } else {
                    return violation("output/unstamped", format!("{} produced {} without frame_id", desc, fmt_frame(f)));
                }
            }
            let suffix = inst.script.suffix.clone().unwrap_or_else(|| ".out".to_string());
            let mut ns: Vec<(usize, i64)> = Vec::new();
            for (tid, frames) in &by_trigger {
                let Some(trig) = log.iter().find(|f| f.id.to_string() == *tid) else {
                    return violation("output/unknown-trigger", format!("{} stamped {} with a frame_id that is no frame", desc, fmt_frame(frames[0])));
                };
                if trig.context_id != inst.ctx {
                    return violation("ctx/leak:handler-dispatch", format!("{} was invoked for {} which belongs to another context", desc, fmt_frame(trig)));
                }
                if Self::meta_str(trig, "handler_id").as_deref() == Some(&hid) {
                    return violation("dispatch/self-loop", format!("{} was invoked for its own output {}", desc, fmt_frame(trig)));
                }
                // (a content-store fault only hits the instances that met the trigger live)
                let cas_failed = is_casfault(trig) && pos_of[&trig.id] > reg_pos && writes_content(&inst.script, false);
                let failing = trig.meta.as_ref().and_then(|m| m.get("fail")).and_then(|v| v.as_bool()).unwrap_or(false) && inst.script.fail_at.is_some() || cas_failed;
                if failing {
                    return violation("output/partial-on-error", format!("{} failed on {} but still emitted {}", desc, fmt_frame(trig), fmt_frame(frames[0])));
                }
                if !trig.topic.starts_with("trig") {
                    return violation("output/unexpected", format!("{} produced output {} for a frame its script ignores", desc, fmt_frame(frames[0])));
                }
                // expected shape
                let mut want: Vec<(String, Option<TTL>, Vec<u8>, bool)> = Vec::new();
                for (k, (_, ttl, _)) in inst.script.appends.iter().enumerate() {
                    if ttl.as_deref() == Some("nul-topic") {
                        continue;
                    }
                    let t = ttl.as_ref().and_then(|x| xs::store::parse_ttl(x).ok());
                    let content: Vec<u8> = if !inst.script.rich {
                        format!("e{}", k).into_bytes()
                    } else {
                        match (k + inst.script.appends.len()) % 4 {
                            0 => format!("e{}", k).into_bytes(),
                            1 => format!("{{\"a\":{},\"b\":\"r\"}}", k).into_bytes(),
                            2 => vec![k as u8, 0xff, 0x00],
                            _ => format!("c{}a\nc{}bb\nc{}ccc\n", k, k, k).into_bytes(),
                        }
                    };
                    want.push((format!("{}.x{}", name, k), t, content, false));
                }
                if inst.script.cat_probe {
                    // `.cat` inside the script shows the handler's own context only
                    want.push((format!("{}.catprobe", name), None, inst.ctx.to_string().into_bytes(), false));
                }
                let selfstop = inst.script.self_stop && trig.meta.as_ref().and_then(|m| m.get("selfstop")).and_then(|v| v.as_bool()).unwrap_or(false);
                if selfstop {
                    want.push((format!("{}.unregister", name), None, b"bye".to_vec(), false));
                }
                if inst.script.ret != Ret::Nothing {
                    let t = inst.script.ret_ttl.as_ref().and_then(|x| xs::store::parse_ttl(x).ok());
                    want.push((format!("{}{}", name, suffix), t, vec![], true));
                }
                if frames.len() != want.len() {
                    return violation(
                        "output/count",
                        format!("{} emitted {} frames for {} (topics [{}]) but its script makes {}", desc, frames.len(), fmt_frame(trig), frames.iter().map(|f| f.topic.clone()).collect::<Vec<_>>().join(","), want.len()),
                    );
                }
                for (f, (topic, ttl, content, is_ret)) in frames.iter().zip(want.iter()) {
                    if f.topic != *topic {
                        return violation("output/order", format!("{}: for {} expected topic {} at this position but found {}", desc, fmt_frame(trig), topic, fmt_frame(f)));
                    }
                    if f.ttl != *ttl {
                        return violation("output/ttl", format!("{}: {} has ttl {:?}, the script asked for {:?}", desc, fmt_frame(f), f.ttl, ttl));
                    }
                    if !*is_ret {
                        if self.content(f).as_deref() != Some(content.as_slice()) {
                            if f.topic.ends_with(".catprobe") {
                                return violation(
                                    "ctx/leak:nu-cat",
                                    format!("{}: `.cat` inside its script showed frames of contexts [{}], its own context is {}", desc, String::from_utf8_lossy(&self.content(f).unwrap_or_default()), short_ctx(&inst.ctx)),
                                );
                            }
                            return violation("output/content", format!("{}: content of {} is not {:?}", desc, fmt_frame(f), String::from_utf8_lossy(content)));
                        }
                    } else {
                        let c = self.content(f).unwrap_or_default();
                        let text = String::from_utf8_lossy(&c).to_string();
                        let v: serde_json::Value = serde_json::from_str(&text).unwrap_or(serde_json::Value::Null);
                        let n_val: Option<i64> = match inst.script.ret {
                            Ret::Record => {
                                if v.get("saw").and_then(|x| x.as_str()) != Some(tid.as_str()) || v.get("topic").and_then(|x| x.as_str()) != Some(trig.topic.as_str()) {
                                    return violation("output/content", format!("{}: return frame for {} carries {}", desc, fmt_frame(trig), text));
                                }
                                v.get("n").and_then(|x| x.as_i64())
                            }
                            Ret::Str => {
                                let want_tail = format!("saw={}", tid);
                                match v.as_str() {
                                    Some(s) if s.ends_with(&want_tail) => s.strip_prefix("n=").and_then(|r| r.split(' ').next()).and_then(|x| x.parse().ok()),
                                    _ => return violation("output/content", format!("{}: return frame for {} carries {}", desc, fmt_frame(trig), text)),
                                }
                            }
                            Ret::Int => v.as_i64(),
                            Ret::Float => {
                                if v.as_f64() != Some(1.5) {
                                    return violation("output/content", format!("{}: float return rendered as {}", desc, text));
                                }
                                None
                            }
                            Ret::Bool => {
                                if v != serde_json::Value::Bool(true) {
                                    return violation("output/content", format!("{}: bool return rendered as {}", desc, text));
                                }
                                None
                            }
                            Ret::List => {
                                if v.get(1).and_then(|x| x.as_str()) != Some(tid.as_str()) {
                                    return violation("output/content", format!("{}: list return rendered as {}", desc, text));
                                }
                                v.get(0).and_then(|x| x.as_i64())
                            }
                            Ret::Binary => None,
                            Ret::EchoFrame => {
                                // the triggering frame, rendered as a record - also when that
                                // frame carries some other handler's stamp
                                if v.get("id").and_then(|x| x.as_str()) != Some(tid.as_str()) || v.get("topic").and_then(|x| x.as_str()) != Some(trig.topic.as_str()) {
                                    return violation("output/content", format!("{}: returned the triggering frame {} but the return frame carries {}", desc, fmt_frame(trig), text));
                                }
                                None
                            }
                            Ret::Nothing => None,
                        };
                        if let Some(n) = n_val {
                            ns.push((pos_of[&trig.id], n));
                        }
                    }
                }
                self.w.probe("output:checked");
            }
            // invocation counter: exactly one invocation per frame of the context
            ns.sort();
            for w2 in ns.windows(2) {
                let (p1, n1) = w2[0];
                let (p2, n2) = w2[1];
                let seg: Vec<&Frame> = log[p1 + 1..p2]
                    .iter()
                    .filter(|f| f.context_id == inst.ctx)
                    .filter(|f| Self::meta_str(f, "handler_id").as_deref() != Some(&hid))
                    .filter(|f| !(f.topic == "xs.threshold" || f.topic == "xs.pulse"))
                    .collect();
                let all_between = seg.len() as i64;
                let stored_between = seg.iter().filter(|f| f.ttl != Some(TTL::Ephemeral)).count() as i64;
                let pulses_possible = inst.script.pulse.is_some();
                let threshold_possible = inst.script.resume != Resume::Tail;
                // live phase (both triggers after the handler was announced): every stored frame
                // is delivered, ephemeral ones too unless they fall into the known hand-off gap;
                // history phase: frames may have been evicted or expired before the replay
                let live = p1 > reg_pos;
                let lo = if live { stored_between + 1 } else { 1 };
                let hi = all_between + 1 + if threshold_possible { 1 } else { 0 };
                if n2 - n1 < lo || (!pulses_possible && n2 - n1 > hi) {
                    let between = all_between;
                    let _ = stored_between;
                    let class = if n2 - n1 < lo { "dispatch/missed-or-env-lost" } else { "dispatch/extra-invocation" };
                    return violation(
                        class,
                        format!(
                            "{}: its invocation counter went from {} (at {}) to {} (at {}) but {} frames of its context lie strictly between them (own outputs excluded): exactly one invocation per frame is required",
                            desc, n1, log[p1].id, n2, log[p2].id, between
                        ),
                    );
                }
            }
            if ns.len() >= 2 {
                self.w.probe("dispatch:counter-checked");
            }
            // completeness: every operator trigger after it was announced, while it was active
            let incarnation_end = self.restart_after(rpos, &log);
            for (tid, tctx, tfail) in self.triggers.clone() {
                if tctx != inst.ctx {
                    continue;
                }
                let Some(&tp) = pos_of.get(&tid) else { continue };
                // where its subscription starts: head, after the given id, or at its registration
                let scope_lo = match inst.script.resume {
                    Resume::Tail => reg_pos + 1,
                    Resume::Head => 0,
                    Resume::After(_) => match inst.after {
                        Some(a) => log.iter().position(|f| f.id > a).unwrap_or(log.len()),
                        None => 0,
                    },
                };
                if tp <= reg_pos {
                    // a historical trigger: replayed to head / after-id handlers if it is stored
                    if tp < scope_lo || tp >= rpos || log[tp].ttl == Some(TTL::Ephemeral) {
                        continue;
                    }
                    self.w.probe("dispatch:historical-trigger-checked");
                }
                if let Some(sp) = stop_pos {
                    if tp > sp {
                        continue;
                    }
                }
                if let Some(e) = incarnation_end {
                    if tp >= e {
                        continue;
                    }
                }
                // was it stopped by something before this trigger? (a later register/unregister of its name)
                let stopper = tp > rpos && log[rpos + 1..tp].iter().any(|f| f.context_id == inst.ctx && (f.topic == format!("{}.register", name) || f.topic == format!("{}.unregister", name)));
                if stopper {
                    continue;
                }
                let earlier_fail = self.triggers.iter().any(|(oid, oc, of)| *oc == inst.ctx && *of && inst.script.fail_at.is_some() && pos_of.get(oid).map(|p| *p >= scope_lo.min(reg_pos + 1) && *p < tp && log[*p].ttl != Some(TTL::Ephemeral) || *p > reg_pos && *p < tp).unwrap_or(false));
                if earlier_fail {
                    continue;
                }
                let earlier_cas_fail = writes_content(&inst.script, false) && self.triggers.iter().any(|(oid, oc, _)| *oc == inst.ctx && pos_of.get(oid).map(|p| *p > reg_pos && *p < tp && is_casfault(&log[*p])).unwrap_or(false));
                if earlier_cas_fail {
                    continue;
                }
                let cas_fails_here = is_casfault(&log[tp]) && tp > reg_pos && writes_content(&inst.script, false);
                let answered = by_trigger.contains_key(&tid.to_string());
                let expects_output = inst.script.ret != Ret::Nothing || inst.script.appends.iter().any(|a| a.1.as_deref() != Some("nul-topic"));
                if tfail && inst.script.fail_at.is_some() || cas_fails_here {
                    // must be unregistered with the error, stamped with this trigger
                    let ok = unregistered.first().map(|u| Self::meta_str(u, "frame_id").as_deref() == Some(&tid.to_string()) && Self::meta_str(u, "error").is_some()).unwrap_or(false);
                    if !ok {
                        return violation("lifecycle/error-not-reported", format!("{}: its closure failed on trigger {} but no {}.unregistered with that error followed", desc, tid, name));
                    }
                    self.w.probe("lifecycle:error-reported");
                } else if expects_output && !answered {
                    let watch = log[tp].meta.as_ref().and_then(|m| m.get("watch")).is_some();
                    let class = if watch { "lifecycle/registered-before-subscribed" } else { "dispatch/missed-trigger" };
                    return violation(
                        class,
                        format!("{}: trigger {} was appended after its {}.registered was visible and while it was active, but it produced nothing for it", desc, fmt_frame(&log[tp]), name),
                    );
                }
            }
        }
        // a stopped instance processes nothing further: once a later <name>.register / .unregister
        // of its (context, name) is in the stream, no frame after that one is answered by it
        for inst in self.instances.clone() {
            if !inst.valid {
                continue;
            }
            let Some(&rpos) = pos_of.get(&inst.id) else { continue };
            let hid = inst.id.to_string();
            let replaced_at = log[rpos + 1..]
                .iter()
                .position(|f| f.context_id == inst.ctx && (f.topic == format!("{}.register", inst.name) || f.topic == format!("{}.unregister", inst.name)))
                .map(|p| p + rpos + 1);
            if let Some(q) = replaced_at {
                for f in &log {
                    if Self::meta_str(f, "handler_id").as_deref() != Some(&hid) || f.topic.ends_with(".registered") || f.topic.ends_with(".unregistered") {
                        continue;
                    }
                    if let Some(t) = Self::meta_str(f, "frame_id") {
                        if let Some(tp) = log.iter().position(|x| x.id.to_string() == t) {
                            if tp > q {
                                return violation(
                                    "lifecycle/processed-after-replaced",
                                    format!(
                                        "handler {} (id {}) answered {} although {} had replaced / unregistered it earlier in the stream",
                                        inst.name,
                                        inst.id,
                                        fmt_frame(&log[tp]),
                                        fmt_frame(&log[q])
                                    ),
                                );
                            }
                        }
                    }
                }
                self.w.probe("lifecycle:replacement-checked");
                // ... and it announces its stop exactly once
                if self.restart_positions.is_empty() {
                    let n_unreg = log.iter().filter(|f| f.topic == format!("{}.unregistered", inst.name) && Self::meta_str(f, "handler_id").as_deref() == Some(&hid)).count();
                    if n_unreg != 1 {
                        return violation(
                            "lifecycle/stop-not-announced",
                            format!(
                                "handler {} (id {}) was replaced / unregistered by {} but {} {}.unregistered frames carry its id at final quiescence",
                                inst.name, inst.id, fmt_frame(&log[q]), n_unreg, inst.name
                            ),
                        );
                    }
                }
            }
        }
        // at most one active instance per (context, name): a trigger appended after two instances
        // of the pair had been announced must not be answered by both
        if self.restart_positions.is_empty() {
            let mut reg_pos_of: HashMap<String, usize> = HashMap::new();
            for (i, f) in log.iter().enumerate() {
                if f.topic.ends_with(".registered") {
                    if let Some(h) = Self::meta_str(f, "handler_id") {
                        reg_pos_of.entry(h).or_insert(i);
                    }
                }
            }
            let mut answered: HashMap<(String, Scru128Id, String), Vec<String>> = HashMap::new();
            for f in &log {
                if f.topic.ends_with(".registered") || f.topic.ends_with(".unregistered") {
                    continue;
                }
                if let (Some(h), Some(t)) = (Self::meta_str(f, "handler_id"), Self::meta_str(f, "frame_id")) {
                    if let Some(inst) = self.instances.iter().find(|x| x.id.to_string() == h) {
                        let e = answered.entry((t, inst.ctx, inst.name.clone())).or_default();
                        if !e.contains(&h) {
                            e.push(h);
                        }
                    }
                }
            }
            for ((t, _, name), hs) in answered {
                if hs.len() < 2 {
                    continue;
                }
                let Some(tp) = log.iter().position(|f| f.id.to_string() == t) else { continue };
                let live_for_all = hs.iter().all(|h| reg_pos_of.get(h).map(|p| *p < tp).unwrap_or(false));
                if live_for_all {
                    return violation(
                        "lifecycle/two-active",
                        format!("trigger {} was appended after {} instances of handler {} had been announced and was answered by all of them: {:?}", fmt_frame(&log[tp]), hs.len(), name, hs),
                    );
                }
            }
        }
        Ok(())
    }

    /// Appends one `<name>.spawn` and records what the generator service must do with it.
    fn spawn_gen(&mut self, i: usize, name: usize, ctx: usize, gen: &GScript, duplex: bool) -> R<()> {
        let c = self.ctx(ctx);
        let n = GNAMES[name % GNAMES.len()];
        let hash = match (gen_expr(gen), gen) {
            (Some(e), _) => Some(self.cas(&e)?),
            (None, GScript::NotUtf8) => Some(self.store.cas_insert_sync([0xffu8, 0xfe, 0x00, 0x80, 0xc3]).map_err(|e| Stop::Harness(format!("cas_insert_sync: {}", e)))?),
            (None, GScript::AbsentContent) => {
                let h = ssri::Integrity::from(format!("never stored {}", i).as_bytes());
                self.absent.insert(h.to_string());
                Some(h)
            }
            (None, _) => None,
        };
        let unusable = matches!(gen, GScript::MissingHash | GScript::NotUtf8 | GScript::AbsentContent);
        if unusable && *gen != GScript::MissingHash {
            self.w.probe("gen:unreadable-expression");
        }
        // every other spawn carries an annotation next to the option the service knows
        let meta = if i % 2 == 0 { serde_json::json!({"duplex": duplex}) } else { serde_json::json!({"duplex": duplex, "origin": "sim"}) };
        let f = self.op_append(Frame::builder(format!("{}.spawn", n), c).maybe_hash(hash).meta(meta).build())?;
        let same_running = self.gens.iter().any(|g| g.name == n && g.ctx == c && g.expect_accept != Some(false));
        let other_ctx_running = self.gens.iter().any(|g| g.name == n && g.ctx != c && g.expect_accept != Some(false));
        let expect_accept = if unusable || same_running {
            Some(false)
        } else if other_ctx_running {
            None
        } else {
            Some(true)
        };
        self.gens.push(GenRec { id: f.id, name: n.to_string(), ctx: c, gen: gen.clone(), duplex, expect_accept });
        self.w.probe(match expect_accept {
            Some(true) => "gen:spawned",
            Some(false) => "gen:refused",
            None => "gen:same-name-other-context",
        });
        Ok(())
    }

    fn restart_after(&self, _pos: usize, _log: &[Frame]) -> Option<usize> {
        None
    }

    /// The invocation counter a return frame carries (lenient: None when the return type has none).
    fn counter_of(&self, inst: &Instance, f: &Frame) -> Option<i64> {
        let c = self.content(f)?;
        let v: serde_json::Value = serde_json::from_slice(&c).ok()?;
        match inst.script.ret {
            Ret::Record => v.get("n").and_then(|x| x.as_i64()),
            Ret::Str => v.as_str().and_then(|s| s.strip_prefix("n=")).and_then(|r| r.split(' ').next()).and_then(|x| x.parse().ok()),
            Ret::Int => v.as_i64(),
            Ret::List => v.get(0).and_then(|x| x.as_i64()),
            _ => None,
        }
    }


    /// Runs with restarts: per incarnation of the serve loop, an instance is invoked at most once
    /// per frame of its context and never for what it emitted itself - also when the replay after
    /// a restart runs over its own earlier output.
    fn check_dispatch_across_restarts(&mut self) -> R<()> {
        let log = self.log.clone();
        let pos_of: HashMap<Scru128Id, usize> = log.iter().enumerate().map(|(i, f)| (f.id, i)).collect();
        let mut cuts: Vec<usize> = vec![0];
        cuts.extend(self.restart_positions.iter().copied());
        cuts.push(log.len());
        for inst in self.instances.clone() {
            if !inst.valid || inst.script.pulse.is_some() || inst.script.ret == Ret::Nothing {
                continue;
            }
            let hid = inst.id.to_string();
            let suffix = inst.script.suffix.clone().unwrap_or_else(|| ".out".to_string());
            let ret_topic = format!("{}{}", inst.name, suffix);
            for w in cuts.windows(2) {
                let (a, b) = (w[0], w[1]);
                let mut ns: Vec<(usize, i64)> = Vec::new();
                for f in &log[a..b] {
                    if f.topic != ret_topic || Self::meta_str(f, "handler_id").as_deref() != Some(&hid) {
                        continue;
                    }
                    let Some(tp) = Self::meta_str(f, "frame_id").and_then(|t| log.iter().position(|x| x.id.to_string() == t)) else { continue };
                    if Self::meta_str(&log[tp], "handler_id").as_deref() == Some(&hid) {
                        return violation("dispatch/self-loop", format!("handler {} (id {}) was invoked for its own output {}", inst.name, inst.id, fmt_frame(&log[tp])));
                    }
                    if let Some(n) = self.counter_of(&inst, f) {
                        ns.push((tp, n));
                    }
                }
                ns.sort();
                ns.dedup();
                let foreign = |lo: usize, hi: usize| -> i64 {
                    log[lo..hi]
                        .iter()
                        .filter(|f| f.context_id == inst.ctx)
                        .filter(|f| Self::meta_str(f, "handler_id").as_deref() != Some(&hid))
                        .filter(|f| !(f.topic == "xs.threshold" || f.topic == "xs.pulse"))
                        .count() as i64
                };
                if let Some(&(p1, n1)) = ns.first() {
                    let hi = foreign(0, p1) + 1 + 1;
                    if n1 > hi {
                        return violation(
                            "dispatch/extra-invocation",
                            format!(
                                "handler {} (id {}, resume {:?}), serve-loop incarnation starting at log position {}: its invocation counter is {} at {} although only {} frames of its context precede that frame (own outputs excluded)",
                                inst.name, inst.id, inst.script.resume, a, n1, log[p1].id, hi - 2
                            ),
                        );
                    }
                }
                for w2 in ns.windows(2) {
                    let (p1, n1) = w2[0];
                    let (p2, n2) = w2[1];
                    if p1 == p2 {
                        continue;
                    }
                    let hi = foreign(p1 + 1, p2) + 1 + 1;
                    if n2 - n1 < 1 || n2 - n1 > hi {
                        let class = if n2 - n1 < 1 { "dispatch/missed-or-env-lost" } else { "dispatch/extra-invocation" };
                        return violation(
                            class,
                            format!(
                                "handler {} (id {}, resume {:?}), serve-loop incarnation starting at log position {}: its invocation counter went from {} (at {}) to {} (at {}) but {} frames of its context lie strictly between them (own outputs excluded)",
                                inst.name, inst.id, inst.script.resume, a, n1, log[p1].id, n2, log[p2].id, hi - 2
                            ),
                        );
                    }
                }
                if ns.len() >= 2 && a > 0 {
                    self.w.probe("dispatch:counter-checked-after-restart");
                }
            }
        }
        let _ = pos_of;
        Ok(())
    }

    /// C17: what is active after each restart is exactly what the stream said was active before it.
    fn check_restarts(&mut self) -> R<()> {
        let log = self.log.clone();
        for (ri, &p) in self.restart_positions.clone().iter().enumerate() {
            let end = self.restart_positions.get(ri + 1).copied().unwrap_or(log.len());
            let before = &log[..p];
            let after = &log[p..end];
            // ---- handlers
            let mut keys: Vec<(Scru128Id, String)> = Vec::new();
            for inst in &self.instances {
                let k = (inst.ctx, inst.name.clone());
                if !keys.contains(&k) {
                    keys.push(k);
                }
            }
            for (c, name) in keys {
                let last_reg = before.iter().rposition(|f| f.context_id == c && f.topic == format!("{}.register", name));
                let Some(rp) = last_reg else { continue };
                let r = &before[rp];
                let Some(inst) = self.instances.iter().find(|x| x.id == r.id).cloned() else { continue };
                let hid = r.id.to_string();
                let unregister_later = before[rp + 1..].iter().any(|f| f.context_id == c && f.topic == format!("{}.unregister", name));
                let unregistered = before.iter().any(|f| f.topic == format!("{}.unregistered", name) && Self::meta_str(f, "handler_id").as_deref() == Some(&hid));
                let should_be_active = inst.valid && !unregister_later && !unregistered;
                let reannounced = after.iter().any(|f| f.topic == format!("{}.registered", name) && Self::meta_str(f, "handler_id").as_deref() == Some(&hid));
                let desc = format!("restart #{}: handler {} in context {} (register {})", ri + 1, name, short_ctx(&c), r.id);
                if should_be_active && !reannounced {
                    return violation("restart/handler-lost", format!("{} was active when the server stopped but was not started again", desc));
                }
                if !should_be_active && reannounced {
                    let why = if !inst.valid {
                        "its script is invalid"
                    } else if unregister_later {
                        "a later <name>.unregister is in the stream"
                    } else {
                        "it had stopped (<name>.unregistered)"
                    };
                    return violation("restart/handler-resurrected", format!("{} came back after the restart although {}", desc, why));
                }
                self.w.probe(if should_be_active { "restart:handler-restored" } else { "restart:handler-stays-stopped" });
                // earlier instances of the pair never come back
                for old in self.instances.iter().filter(|x| x.ctx == c && x.name == name && x.id != r.id) {
                    if pos_in(before, &old.id).is_some() && after.iter().any(|f| f.topic == format!("{}.registered", name) && Self::meta_str(f, "handler_id").as_deref() == Some(&old.id.to_string())) {
                        return violation("restart/handler-resurrected", format!("restart #{}: replaced handler {} (register {}) came back", ri + 1, name, old.id));
                    }
                }
            }
            // historical triggers are not re-executed by tail handlers
            for inst in &self.instances {
                if inst.script.resume != Resume::Tail {
                    continue;
                }
                let hid = inst.id.to_string();
                for f in after {
                    if Self::meta_str(f, "handler_id").as_deref() != Some(&hid) || f.topic.ends_with(".registered") || f.topic.ends_with(".unregistered") {
                        continue;
                    }
                    if let Some(t) = Self::meta_str(f, "frame_id") {
                        if before.iter().any(|b| b.id.to_string() == t) {
                            return violation("restart/trigger-re-executed", format!("restart #{}: tail handler {} answered the historical frame {} again with {}", ri + 1, inst.name, t, fmt_frame(f)));
                        }
                    }
                }
            }
            // ---- generators: the accepted spawn of each (context, name) is started again
            for g in self.gens.clone() {
                if pos_in(before, &g.id).is_none() {
                    continue;
                }
                let sid = g.id.to_string();
                let started_before = before.iter().any(|f| f.topic == format!("{}.start", g.name) && Self::meta_str(f, "source_id").as_deref() == Some(&sid));
                let started_after = after.iter().any(|f| f.topic == format!("{}.start", g.name) && Self::meta_str(f, "source_id").as_deref() == Some(&sid));
                let refused = before.iter().any(|f| f.topic == format!("{}.spawn.error", g.name) && Self::meta_str(f, "source_id").as_deref() == Some(&sid));
                let desc = format!("restart #{}: generator {} in context {} (spawn {})", ri + 1, g.name, short_ctx(&g.ctx), g.id);
                if started_before && !refused {
                    if !started_after {
                        return violation("restart/generator-lost", format!("{} was running when the server stopped but was not started again", desc));
                    }
                    self.w.probe("restart:generator-restored");
                }
                if refused && started_after {
                    return violation("restart/generator-resurrected", format!("{} had been refused but was started after the restart", desc));
                }
            }
            // ---- commands: historical calls are not executed again
            for call in &self.calls {
                if pos_in(before, &call.id).is_none() {
                    continue;
                }
                let cid = call.id.to_string();
                let answered_before = before.iter().any(|f| Self::meta_str(f, "frame_id").as_deref() == Some(&cid) && Self::meta_str(f, "command_id").is_some());
                if let Some(f) = after.iter().find(|f| Self::meta_str(f, "frame_id").as_deref() == Some(&cid) && Self::meta_str(f, "command_id").is_some()) {
                    return violation(
                        "restart/call-re-executed",
                        format!("restart #{}: call {} of {} ({}) produced {} after the restart", ri + 1, call.id, call.name, if answered_before { "already answered before it" } else { "not yet answered when the server stopped" }, fmt_frame(f)),
                    );
                }
            }
            self.w.probe("restart:checked");
        }
        Ok(())
    }

    fn check_generators(&mut self) -> R<()> {
        let log = self.log.clone();
        for g in self.gens.clone() {
            let sid = g.id.to_string();
            let desc = format!("generator {} (spawn {}, context {}, expression {:?}, duplex {})", g.name, g.id, short_ctx(&g.ctx), g.gen, g.duplex);
            let mine: Vec<&Frame> = log.iter().filter(|f| Self::meta_str(f, "source_id").as_deref() == Some(&sid)).collect();
            let errors: Vec<&&Frame> = mine.iter().filter(|f| f.topic == format!("{}.spawn.error", g.name)).collect();
            let life: Vec<&&Frame> = mine.iter().filter(|f| f.topic != format!("{}.spawn.error", g.name)).collect();
            for f in &mine {
                if f.context_id != g.ctx {
                    return violation("gen/context", format!("{} produced {} outside the spawn's context", desc, fmt_frame(f)));
                }
            }
            let accepted = !life.is_empty();
            match g.expect_accept {
                Some(false) => {
                    if accepted {
                        return violation("gen/refused-but-started", format!("{} cannot be honoured but produced {}", desc, fmt_frame(life[0])));
                    }
                    if errors.len() != 1 {
                        return violation("gen/spawn-error-count", format!("{} cannot be honoured: expected exactly one {}.spawn.error naming it, found {}", desc, g.name, errors.len()));
                    }
                    self.w.probe("gen:refusal-checked");
                    continue;
                }
                Some(true) => {
                    if !errors.is_empty() {
                        return violation("gen/valid-spawn-refused", format!("{} was refused: {}", desc, fmt_frame(errors[0])));
                    }
                    if !accepted {
                        return violation("gen/never-started", format!("{} never produced {}.start", desc, g.name));
                    }
                }
                None => {
                    if accepted && !errors.is_empty() {
                        return violation("gen/spawn-error-count", format!("{} both started and was refused", desc));
                    }
                    if !accepted {
                        if errors.len() != 1 {
                            return violation("gen/spawn-error-count", format!("{} neither started nor was refused exactly once ({} errors)", desc, errors.len()));
                        }
                        continue;
                    }
                }
            }
            // (start recv* stop)+ with the produced strings in order
            let want = gen_outputs(&g.gen);
            let mut i = 0;
            let mut lifecycles = 0;
            let mut echoed: Vec<String> = Vec::new();
            while i < life.len() {
                if life[i].topic != format!("{}.start", g.name) {
                    return violation("gen/sequence", format!("{}: expected {}.start at this point of its frames but found {}", desc, g.name, fmt_frame(life[i])));
                }
                i += 1;
                let mut got: Vec<String> = Vec::new();
                while i < life.len() && life[i].topic == format!("{}.recv", g.name) {
                    let c = self.content(life[i]).map(|b| String::from_utf8_lossy(&b).to_string());
                    match c {
                        Some(t) => got.push(t),
                        None => return violation("gen/content-missing", format!("{}: {} has no readable content", desc, fmt_frame(life[i]))),
                    }
                    i += 1;
                }
                let stopped = i < life.len() && life[i].topic == format!("{}.stop", g.name);
                if stopped {
                    i += 1;
                }
                if let GScript::EchoFirst(k) = g.gen {
                    // inputs of this lifecycle: the sends appended while it was running (after its
                    // start, before its stop), the first k of them
                    let start_pos = log.iter().position(|f| f.id == life[i - 1 - got.len() - if stopped { 1 } else { 0 }].id).unwrap_or(0);
                    let stop_pos = if stopped { log.iter().position(|f| f.id == life[i - 1].id).unwrap_or(log.len()) } else { log.len() };
                    let mut expect: Vec<String> = Vec::new();
                    for (id, n, c, text) in &self.sends {
                        if *n == g.name && *c == g.ctx {
                            if let Some(p) = log.iter().position(|f| f.id == *id) {
                                if p > start_pos && p < stop_pos && expect.len() < k {
                                    expect.push(format!("hi: {}", text));
                                }
                            }
                        }
                    }
                    let foreign: Vec<String> = self.sends.iter().filter(|(_, n, c, _)| *n == g.name && *c != g.ctx).map(|(_, _, _, t)| format!("hi: {}", t)).collect();
                    if got.iter().any(|e| foreign.contains(e)) {
                        // sends of another context were fed (not judged): skip the exact comparison
                    } else if got != expect {
                        return violation(
                            "gen/duplex",
                            format!("{}: the lifecycle started at log position {} echoed [{}] but the sends appended while it was running were [{}]", desc, start_pos, got.join(","), expect.join(",")),
                        );
                    } else if !expect.is_empty() {
                        self.w.probe("gen:duplex-checked");
                        if lifecycles >= 1 {
                            self.w.probe("gen:duplex-second-lifecycle");
                        }
                    }
                } else if g.gen == GScript::Echo {
                    echoed.extend(got.clone());
                    if stopped {
                        return violation("gen/sequence", format!("{}: a duplex generator stopped although its input never ended", desc));
                    }
                } else {
                    if !stopped {
                        return violation(
                            "gen/no-stop",
                            format!("{}: a lifecycle produced [{}] and then neither the remaining output nor {}.stop (expected output [{}])", desc, got.join(","), g.name, want.join(",")),
                        );
                    }
                    if got != want {
                        return violation("gen/output", format!("{}: a lifecycle produced [{}] but the expression yields [{}]", desc, got.join(","), want.join(",")));
                    }
                }
                lifecycles += 1;
            }
            if matches!(g.gen, GScript::EchoFirst(_)) {
                // checked per lifecycle above
            } else if g.gen != GScript::Echo {
                // after a stop the generator is started again (the respawn timer is 1 s)
                let first_stop_pos = log.iter().position(|f| f.topic == format!("{}.stop", g.name) && Self::meta_str(f, "source_id").as_deref() == Some(&sid));
                if let Some(sp) = first_stop_pos {
                    let ticks_after = self.ticks_1s.iter().filter(|p| **p > sp).count();
                    if ticks_after >= 1 && lifecycles < 2 {
                        return violation("gen/not-restarted", format!("{}: stopped, a second of simulated time passed, but it was not started again", desc));
                    }
                    if lifecycles >= 2 {
                        self.w.probe("gen:restarted-after-stop");
                    }
                }
            } else {
                // duplex: every send appended while it was running is echoed exactly once, in order
                let start_pos = log.iter().position(|f| f.topic == format!("{}.start", g.name) && Self::meta_str(f, "source_id").as_deref() == Some(&sid));
                let mut expect: Vec<String> = Vec::new();
                if let Some(sp) = start_pos {
                    for (id, n, c, text) in &self.sends {
                        if *n == g.name && *c == g.ctx {
                            if let Some(p) = log.iter().position(|f| f.id == *id) {
                                if p > sp {
                                    expect.push(format!("hi: {}", text));
                                }
                            }
                        }
                    }
                }
                // sends of the same name in another context: the duplex reader is not context-scoped;
                // whether they are fed is not judged here
                let foreign: Vec<String> = self.sends.iter().filter(|(_, n, c, _)| *n == g.name && *c != g.ctx).map(|(_, _, _, t)| format!("hi: {}", t)).collect();
                let echoed: Vec<String> = echoed.into_iter().filter(|e| !foreign.contains(e)).collect();
                if echoed != expect {
                    return violation("gen/duplex", format!("{}: sends while running were [{}] but it produced [{}]", desc, expect.join(","), echoed.join(",")));
                }
                if !expect.is_empty() {
                    self.w.probe("gen:duplex-checked");
                }
            }
            self.w.probe("gen:lifecycle-checked");
        }
        Ok(())
    }

    fn check_commands(&mut self) -> R<()> {
        let log = self.log.clone();
        // invalid definitions are reported
        for d in self.defs.clone() {
            if d.cmd.invalid {
                let reported = log.iter().filter(|f| f.topic == format!("{}.error", d.name) && Self::meta_str(f, "command_id").as_deref() == Some(&d.id.to_string())).count();
                // (a restart replays the definitions and reports the invalid one again)
                if reported < 1 || (reported != 1 && self.restart_positions.is_empty()) {
                    return violation("cmd/invalid-define-not-reported", format!("invalid definition {} of {} produced {} {}.error frames", d.id, d.name, reported, d.name));
                }
                self.w.probe("cmd:invalid-reported");
            }
        }
        for call in self.calls.clone() {
            let cid = call.id.to_string();
            let desc = format!("call {} of {} in context {}", call.id, call.name, short_ctx(&call.ctx));
            let mine: Vec<&Frame> = log.iter().filter(|f| Self::meta_str(f, "frame_id").as_deref() == Some(&cid) && Self::meta_str(f, "command_id").is_some()).collect();
            if call.foreign_def {
                continue;
            }
            let Some(def_id) = call.def else {
                if !mine.is_empty() {
                    return violation("cmd/undefined-executed", format!("{}: no valid definition exists but it produced {}", desc, fmt_frame(mine[0])));
                }
                continue;
            };
            let def = self.defs.iter().find(|d| d.id == def_id).unwrap().clone();
            for f in &mine {
                if f.context_id != call.ctx {
                    return violation("cmd/context", format!("{} produced {} outside the caller's context", desc, fmt_frame(f)));
                }
                if Self::meta_str(f, "command_id").as_deref() != Some(&def_id.to_string()) {
                    return violation("cmd/wrong-definition", format!("{}: {} is stamped with command_id {:?} but the latest valid definition is {}", desc, fmt_frame(f), Self::meta_str(f, "command_id"), def_id));
                }
            }
            let suffix = def.cmd.suffix.clone().unwrap_or_else(|| ".recv".to_string());
            let recvs: Vec<&&Frame> = mine.iter().filter(|f| f.topic == format!("{}{}", call.name, suffix)).collect();
            let completes = mine.iter().filter(|f| f.topic == format!("{}.complete", call.name)).count();
            let errors = mine.iter().filter(|f| f.topic == format!("{}.error", call.name)).count();
            let sides = mine.iter().filter(|f| f.topic == format!("{}.side", call.name)).count();
            if mine.is_empty() && self.restart_positions.last().map(|p| log.iter().position(|f| f.id == call.id).map(|cp| cp >= *p).unwrap_or(false)).unwrap_or(false) {
                return violation(
                    "restart/command-lost",
                    format!("{}: the latest valid definition {} was in force before the restart but the call made after it got no answer at all", desc, def_id),
                );
            }
            if completes + errors != 1 {
                return violation(
                    "cmd/terminal-count",
                    format!("{}: {} complete and {} error frames (topics seen: [{}]); exactly one terminal event is required", desc, completes, errors, mine.iter().map(|f| f.topic.clone()).collect::<Vec<_>>().join(",")),
                );
            }
            let last = mine.last().unwrap();
            if !(last.topic.ends_with(".complete") || last.topic.ends_with(".error")) {
                return violation("cmd/terminal-not-last", format!("{}: {} came after the terminal event", desc, fmt_frame(last)));
            }
            if sides > 1 {
                return violation("cmd/executed-twice", format!("{}: the script's .append ran {} times for one call", desc, sides));
            }
            if def.cmd.panic_after_side && !call.casfault {
                // the worker thread died after the script's own .append: one side frame, one
                // error, nothing else - and the closure ran once
                if completes != 0 || errors != 1 || !recvs.is_empty() || sides != 1 {
                    return violation(
                        "cmd/terminal-count",
                        format!("{}: its worker thread panics after the script's own .append; expected that one frame and one {}.error, found {} side, {} result, {} complete, {} error frames", desc, call.name, sides, recvs.len(), completes, errors),
                    );
                }
                self.w.probe("cmd:worker-panic-checked");
                continue;
            }
            if call.blocked_first {
                // the first result could not be stored: nothing is delivered, the call ends with
                // the error, and the closure ran once (its own .append is there exactly once)
                if completes == 1 {
                    return violation("cmd/error-swallowed", format!("{}: the first result could not be stored, but the call ended with {}.complete", desc, call.name));
                }
                if !recvs.is_empty() {
                    return violation("cmd/output", format!("{}: {} result frames although the first result could not be stored", desc, recvs.len()));
                }
                if def.cmd.explicit_append && sides != 1 {
                    return violation("cmd/explicit-append", format!("{}: the script's .append ran {} times", desc, sides));
                }
                self.w.probe("cmd:blocked-result-checked");
                continue;
            }
            if def.cmd.explicit_append && sides != 1 && errors == 0 {
                return violation("cmd/explicit-append", format!("{}: the script's .append ran {} times", desc, sides));
            }
            if def.cmd.explicit_append {
                let want_side: &[u8] = if def.cmd.outputs.len() % 2 == 0 { b"s1a\ns1bb\ns1ccc\n" } else { b"side" };
                for f in mine.iter().filter(|f| f.topic == format!("{}.side", call.name)) {
                    let got = self.content(f);
                    if got.as_deref() != Some(want_side) {
                        return violation(
                            "cas/script-append-content",
                            format!("{}: the script's .append wrote {:?} but the content behind the frame's hash is {:?}", desc, String::from_utf8_lossy(want_side), got.map(|b| String::from_utf8_lossy(&b).to_string())),
                        );
                    }
                    self.w.probe("cmd:append-content-checked");
                }
            }
            let mut want: Vec<serde_json::Value> = def.cmd.outputs.iter().enumerate().map(|(i, r)| ret_literal(r, i).1).collect();
            if def.cmd.cat_probe {
                want.insert(0, serde_json::json!(call.ctx.to_string()));
            }
            if def.cmd.outputs.len() == 1 && def.cmd.outputs[0] == Ret::List && def.cmd.fail_at.is_none() && !def.cmd.cat_probe {
                // a closure whose value is a list yields its elements
                want = want[0].as_array().cloned().unwrap_or_default();
            }
            let got: Vec<serde_json::Value> = recvs
                .iter()
                .map(|f| self.content(f).and_then(|b| serde_json::from_slice(&b).ok()).unwrap_or(serde_json::json!("<unreadable>")))
                .collect();
            let ttl = def.cmd.ttl.as_ref().and_then(|x| xs::store::parse_ttl(x).ok());
            for f in &recvs {
                if f.ttl != ttl {
                    return violation("cmd/ttl", format!("{}: {} has ttl {:?}, the definition asks for {:?}", desc, fmt_frame(f), f.ttl, ttl));
                }
            }
            if call.casfault && (!def.cmd.outputs.is_empty() || def.cmd.explicit_append || def.cmd.cat_probe) {
                // the content store refused every write while this call ran: nothing can have been
                // delivered, and the call must end with the error
                if completes == 1 {
                    return violation("cmd/error-swallowed", format!("{}: the content store refused to store the call's output, but the call ended with {}.complete (results {:?})", desc, call.name, got));
                }
                if !recvs.is_empty() {
                    return violation("cmd/output", format!("{}: {} result frames although the content store refused every write during the call", desc, recvs.len()));
                }
                self.w.probe("cmd:content-write-failure-checked");
                continue;
            }
            match def.cmd.fail_at {
                None => {
                    if errors != 0 {
                        return violation("cmd/unexpected-error", format!("{}: a correct script ended with {}.error", desc, call.name));
                    }
                    if got != want {
                        if def.cmd.cat_probe && got.first() != want.first() && got.len() == want.len() {
                            return violation("ctx/leak:nu-cat", format!("{}: `.cat` inside the command showed contexts {:?}, the caller's context is {}", desc, got.first(), short_ctx(&call.ctx)));
                        }
                        return violation("cmd/output", format!("{}: results {:?} but the closure yields {:?}", desc, got, want));
                    }
                }
                Some(p) => {
                    // the closure fails at position p: the values before it may have been delivered,
                    // then exactly one error; a completed call is wrong
                    if completes == 1 {
                        return violation(
                            "cmd/error-swallowed",
                            format!("{}: the closure raises an error at output position {} but the call ended with {}.complete (results {:?})", desc, p, call.name, got),
                        );
                    }
                    if got.len() > p || got[..] != want[..got.len()] {
                        return violation("cmd/output", format!("{}: results {:?} before the error, the closure yields {:?} and fails at {}", desc, got, want, p));
                    }
                    self.w.probe("cmd:error-checked");
                }
            }
            self.w.probe("cmd:call-checked");
        }
        // calls are never executed twice
        let mut terminals: HashMap<String, usize> = HashMap::new();
        for f in &log {
            if (f.topic.ends_with(".complete") || f.topic.ends_with(".error")) && Self::meta_str(f, "command_id").is_some() {
                if let Some(t) = Self::meta_str(f, "frame_id") {
                    *terminals.entry(t).or_insert(0) += 1;
                }
            }
        }
        if let Some((t, n)) = terminals.iter().find(|(_, n)| **n > 1) {
            return violation("cmd/executed-twice", format!("call {} has {} terminal events", t, n));
        }
        Ok(())
    }

    fn run(&mut self, chooser: &mut Chooser) -> R<()> {
        self.quiesce(chooser, vec![])?;
        let ops = self.plan.ops.clone();
        for (i, op) in ops.iter().enumerate() {
            self.apply(i, op, chooser)?;
        }
        self.quiesce(chooser, vec![])?;
        self.check_restarts()?;
        if self.restart_positions.is_empty() {
            self.check_handlers()?;
            self.check_generators()?;
        } else {
            self.check_dispatch_across_restarts()?;
        }
        self.check_commands()?;
        self.check_hashes()?;
        Ok(())
    }

    /// Whatever entry point wrote it (operator, handler, generator, command): the hash a frame
    /// carries is the hash of the bytes behind it, the same function of the bytes everywhere.
    fn check_hashes(&mut self) -> R<()> {
        let log = self.log.clone();
        let mut n = 0;
        for f in &log {
            let Some(h) = &f.hash else { continue };
            let Ok(content) = self.store.cas_read_sync(h) else { continue };
            if ssri::Integrity::from(&content[..]) != *h {
                return violation(
                    "cas/hash-not-the-usual-hash-of-its-content",
                    format!("{} carries {} but the {} bytes behind it hash to {} through every other entry point", fmt_frame(f), h, content.len(), ssri::Integrity::from(&content[..])),
                );
            }
            n += 1;
        }
        if n > 0 {
            self.w.probe("cas:hash-of-content-checked");
        }
        Ok(())
    }
}

/// Does an invocation of this script write to the content store (explicit appends, probes, a
/// return value)?
fn writes_content(s: &HScript, selfstop_trigger: bool) -> bool {
    !s.appends.is_empty() || s.cat_probe || s.ret != Ret::Nothing || (s.self_stop && selfstop_trigger)
}

fn is_casfault(f: &Frame) -> bool {
    f.meta.as_ref().and_then(|m| m.get("casfault")).and_then(|v| v.as_bool()).unwrap_or(false)
}

fn pos_in(frames: &[Frame], id: &Scru128Id) -> Option<usize> {
    frames.iter().position(|f| f.id == *id)
}

fn short(op: &SOp) -> String {
    let s = format!("{:?}", op);
    if s.len() > 220 {
        format!("{}..", &s[..220])
    } else {
        s
    }
}

fn gen_hscript(rng: &mut Rng, prop: &str) -> HScript {
    let napp = match prop {
        "C15" => rng.weighted(&[25, 30, 30, 15]),
        _ => rng.weighted(&[60, 30, 10, 0]),
    };
    let mut appends = Vec::new();
    for _ in 0..napp {
        appends.push((
            rng.chance(40),
            if rng.chance(35) { Some(rng.pick(&["head:1", "head:2", "time:60000", "forever", "ephemeral"]).to_string()) } else { None },
            rng.chance(25),
        ));
    }
    if prop == "C15" && napp > 0 && rng.chance(15) {
        let k = rng.below(napp);
        appends[k].1 = Some("nul-topic".to_string());
    }
    let ret = match prop {
        "C15" => match rng.weighted(&[12, 30, 12, 12, 8, 8, 10, 8, 10]) {
            0 => Ret::Nothing,
            1 => Ret::Record,
            2 => Ret::Str,
            3 => Ret::Int,
            4 => Ret::Float,
            5 => Ret::Bool,
            6 => Ret::List,
            7 => Ret::Binary,
            _ => Ret::EchoFrame,
        },
        _ => match rng.weighted(&[70, 15, 15]) {
            0 => Ret::Record,
            1 => Ret::Str,
            _ => Ret::Int,
        },
    };
    let fail_at = if rng.chance(if prop == "C15" || prop == "C16" { 45 } else { 15 }) { Some(rng.below(appends.len() + 1)) } else { None };
    HScript {
        resume: match rng.weighted(&[55, 25, 20]) {
            0 => Resume::Tail,
            1 => Resume::Head,
            _ => Resume::After(rng.below(16)),
        },
        pulse: if prop == "C14" && rng.chance(10) { Some(50) } else { None },
        appends,
        ret,
        suffix: if rng.chance(25) { Some(rng.pick(&[".done", ".result"]).to_string()) } else { None },
        ret_ttl: if rng.chance(25) { Some(rng.pick(&["head:1", "head:3", "ephemeral", "time:60000"]).to_string()) } else { None },
        fail_at,
        self_stop: rng.chance(if prop == "C16" || prop == "C14" { 30 } else { 10 }),
        rich: rng.chance(if prop == "C15" || prop == "C10" { 50 } else { 15 }),
        cat_probe: rng.chance(if prop == "C06" { 60 } else { 20 }),
        invalid: if rng.chance(if prop == "C16" { 18 } else { 5 }) {
            Some(match rng.below(4) {
                0 => Invalid::ParseError,
                1 => Invalid::NoRun,
                2 => Invalid::ZeroArgs,
                _ => Invalid::MissingHash,
            })
        } else {
            None
        },
    }
}

pub fn generate(seed: u64, prop: &str, thorough: bool) -> Plan {
    // C10 looks at every entry point that writes content: half of its service-layer runs use the
    // command workload (streaming `.append`, command outputs), half the handler workload
    let plan_prop = prop;
    // (C06: a third of its service-layer runs use the command workload, with `.cat` probes)
    let prop = if (plan_prop == "C10" && seed & 1 == 0) || (plan_prop == "C06" && seed % 3 == 0) { "C19" } else { plan_prop };
    let mut rng = Rng::new(seed);
    let mut ops = Vec::new();
    let nctx = rng.weighted(&[30, 50, 20]);
    for _ in 0..nctx {
        ops.push(SOp::Ctx);
    }
    // some history before the first handler (resume modes)
    for _ in 0..rng.below(4) {
        ops.push(SOp::Foreign { ctx: rng.below(nctx + 1) });
    }
    let n = rng.range(4, if thorough { 22 } else { 16 });
    let mut watched_used = false;
    if prop == "C18" || prop == "C19" || prop == "C17" {
        for _ in 0..n {
            let k = match prop {
                "C18" => rng.weighted(&[40, 25, 0, 0, 0, 22, 5, 4, 4]),
                "C19" => rng.weighted(&[0, 0, 28, 40, 10, 2, 6, 7, 7]),
                _ => rng.weighted(&[14, 6, 12, 16, 4, 8, 14, 14, 6, 8]),
            };
            let op = match k {
                0 => SOp::SpawnGen {
                    name: rng.below(2),
                    ctx: rng.below(nctx + 1),
                    gen: match rng.weighted(&[20, 15, 25, 10, 14, 10, 12]) {
                        0 => GScript::Single(rng.pick(&["hello", "x", ""]).to_string()),
                        1 => GScript::ListValue(rng.range(1, 3)),
                        2 => GScript::Stream(rng.range(1, 4)),
                        3 => GScript::Empty,
                        4 => GScript::Echo,
                        5 => match rng.below(3) {
                            0 => GScript::MissingHash,
                            1 => GScript::NotUtf8,
                            _ => GScript::AbsentContent,
                        },
                        _ => GScript::EchoFirst(rng.range(1, 2)),
                    },
                    duplex: false,
                },
                1 => SOp::Send { name: rng.below(2), ctx: rng.below(nctx + 1), content: rng.below(100) },
                2 => SOp::Define {
                    name: rng.below(2),
                    ctx: rng.below(nctx + 1),
                    cmd: {
                        let no = rng.weighted(&[10, 35, 30, 25]);
                        let outputs: Vec<Ret> = (0..no)
                            .map(|_| match rng.below(6) {
                                0 => Ret::Str,
                                1 => Ret::Int,
                                2 => Ret::Record,
                                3 => Ret::List,
                                4 => Ret::Bool,
                                _ => Ret::Float,
                            })
                            .collect();
                        CScript {
                            fail_at: if no > 0 && rng.chance(20) { Some(rng.below(no)) } else { None },
                            outputs,
                            explicit_append: rng.chance(30),
                            suffix: if rng.chance(25) { Some(".res".to_string()) } else { None },
                            ttl: if rng.chance(25) { Some(rng.pick(&["head:2", "time:60000"]).to_string()) } else { None },
                            invalid: rng.chance(12),
                            uses_env: true,
                            cat_probe: no > 0 && rng.chance(25),
                            panic_after_side: false,
                            early_return: false,
                        }
                    },
                },
                3 => SOp::Call { name: rng.below(2), ctx: rng.below(nctx + 1), arg: rng.below(10) },
                4 => SOp::CallBurst { name: rng.below(2), ctx: rng.below(nctx + 1), n: rng.range(2, 4) },
                5 => SOp::Tick { ms: 1000 },
                6 => SOp::Trigger { ctx: rng.below(nctx + 1), fail: rng.chance(15), eph: false, selfstop: rng.chance(8) },
                7 => SOp::RegHandler { name: rng.below(2), ctx: rng.below(nctx + 1), script: gen_hscript(&mut rng, "C17"), watched: false, race: false },
                9 => SOp::Unreg { name: rng.below(2), ctx: rng.below(nctx + 1) },
                _ => SOp::Foreign { ctx: rng.below(nctx + 1) },
            };
            let op = match op {
                SOp::SpawnGen { name, ctx, gen: GScript::Echo, .. } => SOp::SpawnGen { name, ctx, gen: GScript::Echo, duplex: true },
                SOp::SpawnGen { name, ctx, gen: GScript::EchoFirst(k), .. } => SOp::SpawnGen { name, ctx, gen: GScript::EchoFirst(k), duplex: true },
                o => o,
            };
            let op = match op {
                SOp::Call { name, ctx, .. } if prop == "C19" && rng.chance(12) => SOp::CasFaultCall { name, ctx },
                SOp::Define { name, ctx, cmd } if prop == "C19" && !cmd.invalid && cmd.fail_at.is_none() && cmd.outputs.len() == 1 && !cmd.cat_probe && rng.chance(40) => {
                    SOp::Define { name, ctx, cmd: CScript { early_return: true, ..cmd } }
                }
                SOp::Define { name, ctx, cmd } if prop == "C19" && !cmd.invalid && cmd.fail_at.is_none() && rng.chance(10) => {
                    SOp::Define { name, ctx, cmd: CScript { explicit_append: true, panic_after_side: true, ..cmd } }
                }
                o => o,
            };
            let op = match op {
                SOp::SpawnGen { name, ctx, gen, duplex: true } if prop == "C18" && rng.chance(35) => SOp::SpawnRace { name, ctx, gen },
                o => o,
            };
            let op = match op {
                SOp::SpawnGen { name, ctx, gen, .. } if (prop == "C17" || prop == "C18") && rng.chance(22) => {
                    let mut gens = vec![gen];
                    for _ in 0..rng.range(1, 2) {
                        gens.push(match rng.weighted(&[30, 30, 25, 15]) {
                            0 => GScript::Single("again".to_string()),
                            1 => GScript::Stream(rng.range(1, 3)),
                            2 => match rng.below(3) {
                                0 => GScript::MissingHash,
                                1 => GScript::NotUtf8,
                                _ => GScript::AbsentContent,
                            },
                            _ => GScript::Echo,
                        });
                    }
                    if rng.chance(30) {
                        gens.reverse();
                    }
                    SOp::SpawnBurst { name, ctx, gens }
                }
                o => o,
            };
            // after a valid definition, sometimes an invalid redefinition of the same command
            let redefine = match &op {
                SOp::Define { name, ctx, cmd } if !cmd.invalid && rng.chance(20) => Some(SOp::Define { name: *name, ctx: *ctx, cmd: CScript { invalid: true, ..cmd.clone() } }),
                _ => None,
            };
            let is_stop = matches!(op, SOp::Unreg { .. });
            // the same script defined under the same name in another context: whatever is
            // prepared per definition (engine, scoped commands) belongs to that context
            let twin = match &op {
                SOp::Define { name, ctx, cmd } if (plan_prop == "C06" || plan_prop == "C19") && !cmd.invalid && nctx > 0 && rng.chance(if plan_prop == "C06" { 60 } else { 15 }) => {
                    let cmd2 = if plan_prop == "C06" { CScript { cat_probe: !cmd.outputs.is_empty(), ..cmd.clone() } } else { cmd.clone() };
                    Some((SOp::Define { name: *name, ctx: *ctx, cmd: cmd2.clone() }, SOp::Define { name: *name, ctx: (*ctx + 1) % (nctx + 1), cmd: cmd2 }))
                }
                _ => None,
            };
            let op = match &twin {
                Some((first, _)) => first.clone(),
                None => op,
            };
            ops.push(op);
            if let Some((_, second)) = twin {
                ops.push(SOp::Foreign { ctx: rng.below(nctx + 1) });
                ops.push(second);
            }
            if let Some(r) = redefine {
                ops.push(r);
            }
            let _ = is_stop;
            if prop == "C19" && rng.chance(7) {
                ops.push(SOp::Restart { crash: rng.chance(50) });
            }
            if prop == "C17" && rng.chance(12) {
                // crash right after a stop request / trigger / call: nothing has answered it yet
                ops.push(SOp::CrashAfter { what: rng.below(3), name: rng.below(2), ctx: rng.below(nctx + 1) });
            } else if prop == "C17" && rng.chance(12) {
                if rng.chance(50) {
                    ops.push(SOp::GcDrain);
                }
                ops.push(SOp::Restart { crash: rng.chance(50) });
            }
        }
        if plan_prop == "C06" {
            for c in 0..=nctx {
                for nm in 0..2 {
                    ops.push(SOp::Call { name: nm, ctx: c, arg: 98 });
                }
            }
        }
        if prop == "C17" {
            if rng.chance(50) {
                ops.push(SOp::GcDrain);
            }
            ops.push(SOp::Restart { crash: rng.chance(40) });
            for c in 0..=nctx {
                for nm in 0..2 {
                    ops.push(SOp::Call { name: nm, ctx: c, arg: 99 });
                }
            }
            ops.push(SOp::Tick { ms: 1000 });
        }
    }
    for _ in 0..(if prop == "C18" || prop == "C19" || prop == "C17" { 0 } else { n }) {
        let k = match prop {
            "C16" => rng.weighted(&[30, 14, 26, 8, 8, 4, 10]),
            "C15" => rng.weighted(&[22, 4, 50, 6, 6, 2, 10]),
            _ => rng.weighted(&[20, 5, 35, 20, 10, 4, 6]),
        };
        let op = match k {
            0 => {
                let watched = prop == "C16" && !watched_used && rng.chance(30);
                let mut script = gen_hscript(&mut rng, prop);
                if watched {
                    watched_used = true;
                    script.invalid = None;
                    script.resume = Resume::Tail;
                    if script.ret == Ret::Nothing && script.appends.is_empty() {
                        script.ret = Ret::Record;
                    }
                }
                {
                    let race = watched && rng.chance(50);
                    SOp::RegHandler { name: rng.below(2), ctx: rng.below(nctx + 1), script, watched, race }
                }
            }
            1 => {
                if prop == "C16" && rng.chance(30) {
                    let mut a = gen_hscript(&mut rng, prop);
                    let mut b = gen_hscript(&mut rng, prop);
                    for x in [&mut a, &mut b] {
                        x.invalid = None;
                        x.resume = Resume::Tail;
                        if x.ret == Ret::Nothing && x.appends.is_empty() {
                            x.ret = Ret::Record;
                        }
                    }
                    let second = if rng.chance(35) { None } else { Some(b) };
                    SOp::DoubleReg { name: rng.below(2), ctx: rng.below(nctx + 1), first: a, second }
                } else {
                    SOp::Unreg { name: rng.below(2), ctx: rng.below(nctx + 1) }
                }
            }
            2 => SOp::Trigger { ctx: rng.below(nctx + 1), fail: rng.chance(15), eph: rng.chance(10), selfstop: rng.chance(10) },
            3 => SOp::Burst { n: rng.range(2, 6), ctx: rng.below(nctx + 1), other_ctx: rng.below(nctx + 1) },
            4 => SOp::Foreign { ctx: rng.below(nctx + 1) },
            5 => SOp::Tick { ms: *rng.pick(&[50u64, 1000]) },
            _ => {
                if prop == "C14" && rng.chance(50) {
                    SOp::Restart { crash: false }
                } else if prop == "C15" && rng.chance(60) {
                    SOp::CasFaultTrigger { ctx: rng.below(nctx + 1) }
                } else {
                    SOp::Quiesce
                }
            }
        };
        ops.push(op);
    }
    // final probes: one trigger per context
    for c in 0..=nctx {
        ops.push(SOp::Trigger { ctx: c, fail: false, eph: false, selfstop: false });
    }
    let policy = match rng.weighted(&[40, 25, 20, 15]) {
        0 => "uniform",
        1 => "burst",
        2 => "pct",
        _ => "starve-engine",
    };
    Plan {
        prop: plan_prop.to_string(),
        seed,
        policy: policy.to_string(),
        ops,
        split_append: (prop == "C19" || prop == "C15") && rng.chance(40),
        choices: vec![],
    }
}

fn policy_of(name: &str) -> Policy {
    match name {
        "burst" => Policy::Burst(70),
        "pct" => Policy::Pct { changes: 3, horizon: 200 },
        "starve-engine" => Policy::Starve("engine".into()),
        _ => Policy::Uniform,
    }
}

pub fn exec_value(planv: &serde_json::Value, tag: &str) -> (RunResult, Vec<String>) {
    let empty = |h: String| RunResult { violation: None, harness: Some(h), probes: BTreeMap::new(), decisions: 0, sim_ms: 0, trace: vec![], choices: vec![], plan_patch: None };
    let plan: Plan = match serde_json::from_value(planv.clone()) {
        Ok(p) => p,
        Err(e) => return (empty(format!("bad plan: {}", e)), vec![]),
    };
    let mut run = match Run::new(&plan, tag) {
        Ok(r) => r,
        Err(Stop::Harness(h)) => return (empty(h), vec![]),
        Err(Stop::Violation(v)) => return (RunResult { violation: Some(v), harness: None, probes: BTreeMap::new(), decisions: 0, sim_ms: 0, trace: vec![], choices: vec![], plan_patch: None }, vec![]),
    };
    let explicit = plan.choices.clone();
    let replaying = !explicit.is_empty();
    let mut chooser = Chooser::new(plan.seed ^ 0x5e5, policy_of(&plan.policy), explicit);
    if replaying {
        chooser.first_after_explicit = true;
    }
    let res = std::panic::catch_unwind(std::panic::AssertUnwindSafe(|| run.run(&mut chooser)));
    let (violation, harness_e) = match res {
        Ok(Ok(())) => (None, None),
        Ok(Err(Stop::Violation(v))) => (Some(v), None),
        Ok(Err(Stop::Harness(h))) => (None, Some(h)),
        Err(p) => (Some(Violation::new("service/panic", format!("panicked: {}", crate::world::panic_msg(&p)))), None),
    };
    let Run { w, store, follower, .. } = run;
    drop(follower);
    let mut w = w;
    let _ = w.close_store_after_end(store);
    let (probes, decisions, sim_ms, trace) = w.finish();
    (RunResult { violation, harness: harness_e, probes, decisions, sim_ms, trace, choices: vec![], plan_patch: None }, chooser.record)
}
