//! Batch driver: fans runs out to worker processes, aggregates, minimises and replays
//! violations, applies the known-findings file and writes the evidence file.

use std::collections::{BTreeMap, BTreeSet};
use std::io::Write;
use std::path::{Path, PathBuf};
use std::process::{Command, Stdio};

use serde_json::{json, Value};

use crate::props;

fn root() -> PathBuf {
    std::env::var("VERIF_ROOT").map(PathBuf::from).unwrap_or_else(|_| {
        let cwd = std::env::current_dir().unwrap();
        if cwd.join("properties.jsonl").exists() {
            cwd
        } else {
            PathBuf::from("/verif")
        }
    })
}

fn env_u64(name: &str, default: u64) -> u64 {
    std::env::var(name).ok().and_then(|s| s.parse().ok()).unwrap_or(default)
}

fn exe() -> PathBuf {
    std::env::current_exe().expect("current exe")
}

#[derive(Clone, Debug)]
struct Known {
    property: String,
    status: String,
    class: String,
    matches: String,
    description: String,
}

fn load_known() -> Vec<Known> {
    let p = root().join("known_findings.json");
    let Ok(s) = std::fs::read_to_string(&p) else {
        return vec![];
    };
    let v: Value = serde_json::from_str(&s).unwrap_or(Value::Null);
    v.get("findings")
        .and_then(|f| f.as_array())
        .map(|a| {
            a.iter()
                .map(|e| Known {
                    property: e["property"].as_str().unwrap_or("").to_string(),
                    status: e["status"].as_str().unwrap_or("").to_string(),
                    class: e["class"].as_str().unwrap_or("").to_string(),
                    matches: e["match"].as_str().unwrap_or("").to_string(),
                    description: e["description"].as_str().unwrap_or("").to_string(),
                })
                .collect()
        })
        .unwrap_or_default()
}

fn known_for<'a>(known: &'a [Known], prop: &str, class: &str, text: &str) -> Option<&'a Known> {
    known
        .iter()
        .find(|k| k.status == "known" && k.property == prop && k.class == class && (k.matches.is_empty() || text.contains(&k.matches)))
}

/// Execute one plan in a fresh process. Returns (result, class, text).
fn exec_in_subprocess(engine: &str, plan: &Value, scratch: &Path) -> (String, String, String) {
    let (a, b, c, _) = exec_in_subprocess_p(engine, plan, scratch);
    (a, b, c)
}

fn exec_in_subprocess_p(engine: &str, plan: &Value, scratch: &Path) -> (String, String, String, Value) {
    let file = scratch.join(format!("plan-{}.json", std::process::id()));
    std::fs::write(&file, serde_json::to_vec(plan).unwrap()).expect("write plan");
    let out = Command::new(exe())
        .arg("exec-plan")
        .arg(engine)
        .arg(&file)
        .stderr(Stdio::null())
        .output();
    let _ = std::fs::remove_file(&file);
    match out {
        Ok(o) => {
            let s = String::from_utf8_lossy(&o.stdout);
            let line = s.lines().last().unwrap_or("");
            match serde_json::from_str::<Value>(line) {
                Ok(v) => (
                    v["result"].as_str().unwrap_or("harness").to_string(),
                    v["class"].as_str().unwrap_or("").to_string(),
                    v["text"].as_str().unwrap_or("").to_string(),
                    v["plan_patch"].clone(),
                ),
                Err(_) => ("harness".into(), "".into(), format!("unparsable output (status {:?})", o.status), Value::Null),
            }
        }
        Err(e) => ("harness".into(), "".into(), e.to_string(), Value::Null),
    }
}

/// ddmin-style shrinking of the plan's operation list while the same violation class persists.
fn minimise(engine: &str, plan: &Value, class: &str, scratch: &Path, budget_s: u64) -> (Value, String) {
    let t0 = std::time::Instant::now();
    let mut best = plan.clone();
    // keys that pin one crash image are recomputed for the minimised workload
    let had_patch = best.get("only").map(|v| !v.is_null()).unwrap_or(false);
    if let Some(m) = best.as_object_mut() {
        m.remove("only");
        m.remove("log_digest");
    }
    let finish = |best: Value, text: String| -> (Value, String) {
        if !had_patch {
            return (best, text);
        }
        let (r, c, t, patch) = exec_in_subprocess_p(engine, &best, scratch);
        let mut out = best;
        if r == "violation" && c == class {
            if let Value::Object(m) = patch {
                for (k, v) in m {
                    out[k.as_str()] = v;
                }
            }
            return (out, t);
        }
        (out, text)
    };
    let (r0, c0, t0text) = exec_in_subprocess(engine, &best, scratch);
    let mut best_text = t0text;
    if r0 != "violation" || c0 != class {
        return (plan.clone(), best_text);
    }
    let ops_key = if best.get("ops").is_some() { "ops" } else { return finish(best, best_text) };
    let mut chunk = (best[ops_key].as_array().map(|a| a.len()).unwrap_or(0) / 2).max(1);
    loop {
        let ops: Vec<Value> = best[ops_key].as_array().cloned().unwrap_or_default();
        let mut progressed = false;
        let mut i = 0;
        while i < ops.len() {
            if t0.elapsed().as_secs() > budget_s {
                return finish(best, best_text);
            }
            let cur: Vec<Value> = best[ops_key].as_array().cloned().unwrap_or_default();
            if i >= cur.len() {
                break;
            }
            let end = (i + chunk).min(cur.len());
            let mut cand_ops = cur.clone();
            cand_ops.drain(i..end);
            let mut cand = best.clone();
            cand[ops_key] = Value::Array(cand_ops);
            let (r, c, t) = exec_in_subprocess(engine, &cand, scratch);
            if r == "violation" && c == class {
                best = cand;
                best_text = t;
                progressed = true;
            } else {
                i += chunk;
            }
        }
        if chunk == 1 && !progressed {
            break;
        }
        if !progressed {
            chunk = (chunk / 2).max(1);
        }
    }
    finish(best, best_text)
}

pub fn run(prop: &str, tier: &str) -> i32 {
    let Some(spec) = props::spec(prop) else {
        eprintln!("unknown property {}", prop);
        return 2;
    };
    let t0 = std::time::Instant::now();
    let seed = env_u64("VERIF_SEED", 1);
    let workers = env_u64("VERIF_WORKERS", 16).max(1);
    let thorough = tier == "thorough";
    let total = env_u64("VERIF_RUNS", if thorough { spec.thorough_runs } else { spec.quick_runs });
    let deadline = env_u64("VERIF_DEADLINE_S", if thorough { 1500 } else { 150 });
    let root = root();
    let scratch = root.join("scratch");
    let _ = std::fs::create_dir_all(&scratch);
    let _ = std::fs::create_dir_all(root.join("evidence"));
    let _ = std::fs::create_dir_all(root.join("replays"));
    println!("# {} {} seed={} runs={} workers={} engine={}", prop, tier, seed, total, workers, spec.engine);

    let per = total.div_ceil(workers);
    let mut children = Vec::new();
    for w in 0..workers {
        let child = Command::new(exe())
            .arg("worker")
            .arg(prop)
            .arg(tier)
            .arg(seed.to_string())
            .arg(w.to_string())
            .arg(workers.to_string())
            .arg(per.to_string())
            .arg(deadline.to_string())
            .stdout(Stdio::piped())
            .stderr(Stdio::piped())
            .spawn()
            .expect("spawn worker");
        children.push(child);
    }
    let mut runs = 0u64;
    let mut probes: BTreeMap<String, u64> = BTreeMap::new();
    let mut hashes: BTreeSet<u64> = BTreeSet::new();
    let mut nontrivial = 0u64;
    let mut decisions = 0u64;
    let mut sim_ms = 0u64;
    let mut violations: Vec<Value> = Vec::new();
    let mut per_class: BTreeMap<String, u64> = BTreeMap::new();
    let mut harness: Vec<String> = Vec::new();
    let mut samples: Vec<Value> = Vec::new();
    let mut cut_short = false;
    for (w, child) in children.into_iter().enumerate() {
        let out = child.wait_with_output().expect("worker output");
        let s = String::from_utf8_lossy(&out.stdout);
        let line = s.lines().last().unwrap_or("");
        let v: Value = match serde_json::from_str(line) {
            Ok(v) => v,
            Err(_) => {
                let err = String::from_utf8_lossy(&out.stderr);
                harness.push(format!(
                    "worker {} died (status {:?}): {}",
                    w,
                    out.status,
                    err.lines().rev().take(5).collect::<Vec<_>>().join(" | ")
                ));
                continue;
            }
        };
        runs += v["runs"].as_u64().unwrap_or(0);
        decisions += v["decisions"].as_u64().unwrap_or(0);
        sim_ms += v["sim_ms"].as_u64().unwrap_or(0);
        cut_short |= v["cut_short"].as_bool().unwrap_or(false);
        if let Some(m) = v["probes"].as_object() {
            for (k, x) in m {
                *probes.entry(k.clone()).or_insert(0) += x.as_u64().unwrap_or(0);
            }
        }
        if let Some(a) = v["nontrivial_hashes"].as_array() {
            nontrivial += a.len() as u64;
            for h in a {
                if let Some(h) = h.as_u64() {
                    hashes.insert(h);
                }
            }
        }
        if let Some(a) = v["violations"].as_array() {
            violations.extend(a.iter().cloned());
        }
        if let Some(m) = v["violations_per_class"].as_object() {
            for (k, x) in m {
                *per_class.entry(k.clone()).or_insert(0) += x.as_u64().unwrap_or(0);
            }
        }
        if let Some(a) = v["harness"].as_array() {
            for h in a {
                harness.push(format!("run index {} seed {}: {}", h["index"], h["seed"], h["text"].as_str().unwrap_or("")));
            }
        }
        if let Some(a) = v["samples"].as_array() {
            if samples.len() < 3 {
                samples.extend(a.iter().take(1).cloned());
            }
        }
    }

    // violations: one report per class (lowest run index), known findings applied
    let known = load_known();
    violations.sort_by_key(|v| v["index"].as_u64().unwrap_or(u64::MAX));
    let mut reported_classes: BTreeSet<String> = BTreeSet::new();
    let mut n_violation = 0;
    let mut known_seen: Vec<String> = Vec::new();
    let mut foreign: BTreeMap<String, u64> = BTreeMap::new();
    for (c, n) in &per_class {
        if !props::belongs(spec, c) {
            foreign.insert(c.clone(), *n);
        }
    }
    let mut replay_files: Vec<String> = Vec::new();
    let mut foreign_saved: BTreeSet<String> = BTreeSet::new();
    for v in &violations {
        let class = v["class"].as_str().unwrap_or("").to_string();
        let text = v["text"].as_str().unwrap_or("").to_string();
        if !props::belongs(spec, &class) {
            // a class that belongs to another property: not this check's verdict, but keep the
            // trace so that it can be replayed against the check that owns the class
            if foreign_saved.insert(class.clone()) {
                let fname = format!("foreign-{}-{}-{}.json", prop, class.replace(['/', ':'], "_"), v["seed"].as_u64().unwrap_or(0));
                let path = root.join("replays").join(&fname);
                let owner = props::owner_of(&class, spec.engine).unwrap_or("?");
                let file = json!({
                    "property": owner,
                    "engine": engines_of(spec).join("+"),
                    "class": class,
                    "text": text,
                    "batch_seed": seed,
                    "run_index": v["index"],
                    "run_seed": v["seed"],
                    "plan": v["plan"],
                });
                let _ = std::fs::write(&path, serde_json::to_string_pretty(&file).unwrap());
                println!("# note: class {} (property {}) seen in this batch; trace kept at {}", class, owner, path.display());
            }
            continue;
        }
        if let Some(k) = known_for(&known, prop, &class, &text) {
            let line = format!("KNOWN-FINDING: property={} {} [{}]", prop, k.description, class);
            if !known_seen.contains(&line) {
                println!("{}", line);
                known_seen.push(line);
            }
            continue;
        }
        if reported_classes.contains(&class) {
            continue;
        }
        reported_classes.insert(class.clone());
        let plan = v["plan"].clone();
        let (min_plan, min_text) = if std::env::var("VERIF_NO_MINIMISE").is_ok() {
            (plan.clone(), text.clone())
        } else {
            minimise(spec.engine, &plan, &class, &scratch, 60)
        };
        // a minimised trace may surface the same defect under a known-finding text
        if let Some(k) = known_for(&known, prop, &class, &min_text) {
            let line = format!("KNOWN-FINDING: property={} {} [{}]", prop, k.description, class);
            if !known_seen.contains(&line) {
                println!("{}", line);
                known_seen.push(line);
            }
            continue;
        }
        let fname = format!("{}-{}-{}.json", prop, class.replace(['/', ':'], "_"), v["seed"].as_u64().unwrap_or(0));
        let path = root.join("replays").join(&fname);
        let file = json!({
            "property": prop,
            "engine": engines_of(spec).join("+"),
            "class": class,
            "text": min_text,
            "batch_seed": seed,
            "run_index": v["index"],
            "run_seed": v["seed"],
            "original_ops": plan.get("ops").and_then(|o| o.as_array()).map(|a| a.len()),
            "plan": min_plan,
        });
        std::fs::write(&path, serde_json::to_string_pretty(&file).unwrap()).expect("write replay");
        // replay in a fresh process: must reproduce the same class
        let mut replayed: Option<String> = None;
        let mut last = (String::new(), String::new(), String::new());
        for _ in 0..3 {
            let (r, c, t) = exec_in_subprocess(spec.engine, &min_plan, &scratch);
            if r == "violation" && c == class {
                replayed = Some(t);
                break;
            }
            last = (r, c, t);
        }
        // the violation was observed on the real code by an oracle that does not depend on the
        // schedule labels, so it is reported in any case; a replay that does not reproduce it is
        // said so (runs that use xs's real id generator are the known source)
        n_violation += 1;
        println!("VIOLATION property={} replay={}", prop, path.display());
        println!("  class: {}", class);
        match replayed {
            Some(t) => println!("  {}", t),
            None => {
                println!("  {}", min_text);
                println!("  NOTE: three replays in fresh processes did not reproduce this class (last: {} {} {})", last.0, last.1, last.2);
                // fall back to the unminimised plan so the file at least holds the observed run
                let file = json!({
                    "property": prop, "engine": spec.engine, "class": class, "text": text,
                    "batch_seed": seed, "run_index": v["index"], "run_seed": v["seed"], "plan": plan,
                    "note": "replay did not reproduce in a fresh process"
                });
                let _ = std::fs::write(&path, serde_json::to_string_pretty(&file).unwrap());
            }
        }
        replay_files.push(path.display().to_string());
    }

    // reach: a probe stuck at zero is a hollow pass
    let mut unreached: Vec<&str> = Vec::new();
    if std::env::var("VERIF_RUNS").is_err() {
        for p in spec.must_reach {
            if probes.get(*p).copied().unwrap_or(0) == 0 {
                unreached.push(p);
            }
        }
    }
    let wall = t0.elapsed().as_secs_f64();
    let evidence = json!({
        "property_id": prop,
        "tier": if thorough { "thorough" } else { "quick" },
        "seed": seed,
        "level": if spec.engine == "e1" { "fault_enumeration" } else { "exploration" },
        "wall_s": wall,
        "violations": n_violation,
        "coverage": {
            "evaluations": runs,
            "distinct_nontrivial": hashes.len(),
            "nontrivial_runs": nontrivial,
            "rule": spec.rule,
            "samples": samples,
            "engine": engines_of(spec).join("+"),
            "runs_per_hour": if wall > 0.0 { (runs as f64 / wall * 3600.0) as u64 } else { 0 },
            "decisions_total": decisions,
            "sim_time_ms_total": sim_ms,
            "probes": probes,
            "workers": workers,
            "cut_short_by_deadline": cut_short,
            "violations_per_class_all": per_class,
            "violations_of_other_properties_seen": foreign,
            "known_findings_seen": known_seen,
            "replay_files": replay_files,
            "components": engines_of(spec).iter().map(|e| (e.to_string(), components(e))).collect::<serde_json::Map<String, Value>>(),
        },
        "assumptions": engines_of(spec).iter().flat_map(|e| assumptions(e).as_array().cloned().unwrap_or_default()).collect::<Vec<Value>>(),
    });
    let ev_path = root.join("evidence").join(format!("{}.json", prop));
    let mut f = std::fs::File::create(&ev_path).expect("evidence file");
    f.write_all(serde_json::to_string_pretty(&evidence).unwrap().as_bytes()).unwrap();
    println!(
        "# {} runs={} nontrivial={} distinct={} decisions={} wall={:.1}s violations={} known={} other-property-classes={:?}",
        prop,
        runs,
        nontrivial,
        hashes.len(),
        decisions,
        wall,
        n_violation,
        known_seen.len(),
        foreign
    );
    if !harness.is_empty() {
        for h in &harness {
            println!("HARNESS-ERROR {}", h);
        }
        return if n_violation > 0 { 1 } else { 2 };
    }
    if n_violation > 0 {
        return 1;
    }
    if !unreached.is_empty() {
        println!("HARNESS-ERROR thin reach: probes never hit: {:?}", unreached);
        return 2;
    }
    0
}

fn engines_of(spec: &props::PropSpec) -> Vec<&'static str> {
    if spec.mix.is_empty() {
        vec![spec.engine]
    } else {
        spec.mix.iter().map(|(e, _)| *e).collect()
    }
}

fn components(engine: &str) -> Value {
    match engine {
        "e3" => json!({
            "real": ["xs::store::Store (append, insert_frame, remove, read, read_sync, get, head, gc worker, history thread)", "fjall 2.4.4 / lsm-tree (journal, memtable, forced flush + journal rotation, recovery on reopen)", "tokio runtime (current_thread) and channels", "scru128 id layout"],
            "stubbed": ["wall clock (simulated ms)", "id entropy and timestamp (seeded generator on the simulated clock)", "scheduling of the gc worker and history thread (released one step at a time by the seeded scheduler)", "read channel capacity (knob)", "restart (clean close + reopen, or byte copy of the live directory at a quiescent instant)"]
        }),
        "e1" => json!({
            "real": ["xs::store::Store (append, insert_frame, remove, gc worker) write path", "fjall journal / memtable flush / recovery (Store::new on every image)", "cacache write paths (mmap-sized and streaming) and integrity-checked reads", "tmpfs file system executing every operation for real"],
            "stubbed": ["durability: crash images are rebuilt from the recorded operation log (kill / power-loss / torn)", "crash instant (every log prefix)", "clock and ids (simulated)", "gc worker scheduling (one task per step)"]
        }),
        "e4" | "e20" => json!({
            "real": ["hyper http1 server connection + xs::api::handle (routing, all handlers)", "xs::store::Store incl. history threads and live tasks behind GET /", "cacache (streamed request bodies, POST/GET /cas)", "xs client-side ReadOptions::to_query_string for building queries"],
            "stubbed": ["transport: tokio::io::duplex pipes instead of sockets; request bytes fragmented, chunked, cut by disconnects", "HTTP client (hand-written request builder and response/chunk/NDJSON/SSE parser in the harness)", "clock and ids (simulated)", "history-thread scheduling (released until idle between client steps)"]
        }),
        "e5" => json!({
            "real": ["xs::handlers::serve / Handler / EngineWorker", "xs::generators::serve", "xs::commands::serve", "nushell engine (nu-* 0.103) evaluating generated scripts", "nu custom commands .append/.cat/.head/.cas/.get/.remove", "xs::store::Store, cacache"],
            "stubbed": ["scheduling of engine-worker, generator-worker, command-call, history and gc threads (sync points, seeded chooser)", "clock (tokio paused clock + simulated wall clock) and ids", "the operator / clients (harness)", "restart (byte copy of the directory + new runtime + new serve loops)", "injected faults: the content store refusing writes while a trigger / call is handled (cacache's temp directory replaced by a file), a command worker thread that panics after the script's own append, crash restarts a few steps into pending work"]
        }),
        "e2" => json!({
            "real": ["xs::store::Store::append / read / read_sync on real OS threads and tokio tasks", "tokio broadcast + mpsc channels, current_thread runtime (stepped)", "fjall write path"],
            "stubbed": ["thread and task interleaving (every writer, history thread and live task parks at sync points and is released by the seeded chooser)", "clock (tokio paused clock + simulated wall clock, advanced by decisions)", "id entropy", "broadcast and delivery channel capacities (knobs)"]
        }),
        _ => json!({}),
    }
}

fn assumptions(engine: &str) -> Value {
    match engine {
        "e3" => json!([
            "sampling, not proof: verdict covers the seeds explored",
            "fjall's background flush/compaction threads are not scheduled; flushes are forced from the foreground",
            "crash reopen in this engine is a copy taken at a quiescent instant (syscall-granular crash points are C04's engine)",
            "hooks are compiled in with --cfg xs_verif; with no controller installed they are no-ops"
        ]),
        "e1" => json!([
            "exhaustive over crash points per workload, workloads sampled by seed",
            "power-loss model: unsynced journal bytes dropped (all, or all but a prefix); other files keep completed writes; directory operations ordered and durable",
            "cuts inside the creation of a brand-new store are not judged",
            "fjall background threads are waited for (log quiet for 30 ms), not scheduled"
        ]),
        "e4" | "e20" => json!([
            "sampling, not proof: verdict covers the request sequences explored",
            "one tokio step runs all server tasks to idle: interleavings between connection tasks are not explored (production uses a multi-threaded runtime)",
            "request/response pipes are >= 1 KiB (a smaller pipe makes hyper truncate an early 4xx when it closes a connection whose request body it has not read)",
            "imported ids are kept below later appended ids (see the known C03 finding on the live-task dedupe)"
        ]),
        "e5" => json!([
            "sampling, not proof: verdict covers the histories and schedules explored",
            "inside one tokio step the serve loops and handler tasks run in tokio's FIFO order; OS threads are interleaved at their sync points",
            "appends made by tokio tasks are atomic steps (they run on the scheduler thread)",
            "the store's collector runs only where a history asks for it (GcDrain before some restarts in C17)"
        ]),
        "e2" => json!([
            "sampling, not proof: verdict covers the schedules explored",
            "interleavings are explored at the instrumented sync points (append: enter/id/committed/broadcast; read: subscribed, scan, each delivery, scanned, done, live start, each live receive); inside one tokio step tasks run in tokio's FIFO order",
            "the gc worker is idle in these workloads (no head/time TTLs)"
        ]),
        _ => json!([]),
    }
}

pub fn replay(file: &str) -> i32 {
    let s = match std::fs::read_to_string(file) {
        Ok(s) => s,
        Err(e) => {
            eprintln!("cannot read {}: {}", file, e);
            return 2;
        }
    };
    let v: Value = match serde_json::from_str(&s) {
        Ok(v) => v,
        Err(e) => {
            eprintln!("cannot parse {}: {}", file, e);
            return 2;
        }
    };
    let engine = v["engine"].as_str().unwrap_or("e3").to_string();
    let prop = v["property"].as_str().unwrap_or("?").to_string();
    let class = v["class"].as_str().unwrap_or("").to_string();
    let r = props::exec_plan(&engine, &v["plan"], "replay");
    for l in &r.trace {
        println!("  {}", l);
    }
    if let Some(h) = r.harness {
        println!("HARNESS-ERROR {}", h);
        return 2;
    }
    match r.violation {
        Some(viol) if viol.class == class || class.is_empty() => {
            println!("VIOLATION property={} replay={}", prop, file);
            println!("  class: {}", viol.class);
            println!("  {}", viol.text);
            1
        }
        Some(viol) => {
            println!("different violation on replay: {} {}", viol.class, viol.text);
            1
        }
        None => {
            println!("no violation on replay (property {} held for this trace)", prop);
            0
        }
    }
}

/// Determinism self-test: run the first n seeds twice, in separate processes with different
/// worker layouts, and compare the per-run trace hashes.
pub fn selftest(prop: &str, n: u64) -> i32 {
    let seed = env_u64("VERIF_SEED", 1);
    let run = |workers: u64| -> BTreeMap<u64, u64> {
        let per = n.div_ceil(workers);
        let mut children = Vec::new();
        for w in 0..workers {
            let c = Command::new(exe())
                .env("XS_SIM_ALL_HASHES", "1")
                .arg("worker")
                .arg(prop)
                .arg("quick")
                .arg(seed.to_string())
                .arg(w.to_string())
                .arg(workers.to_string())
                .arg(per.to_string())
                .arg("100000")
                .stdout(Stdio::piped())
                .stderr(Stdio::null())
                .spawn()
                .expect("spawn");
            children.push(c);
        }
        let mut m = BTreeMap::new();
        for c in children {
            let out = c.wait_with_output().unwrap();
            let s = String::from_utf8_lossy(&out.stdout);
            if let Ok(v) = serde_json::from_str::<Value>(s.lines().last().unwrap_or("")) {
                if let Some(a) = v["all_hashes"].as_array() {
                    for p in a {
                        m.insert(p[0].as_u64().unwrap(), p[1].as_u64().unwrap());
                    }
                }
            }
        }
        m
    };
    let a = run(16);
    let b = run(3);
    let mut div = 0;
    for (k, v) in &a {
        if let Some(w) = b.get(k) {
            if v != w {
                div += 1;
                if div <= 5 {
                    println!("DIVERGENCE prop={} index={} hash16={} hash3={}", prop, k, v, w);
                }
            }
        }
    }
    let common = a.keys().filter(|k| b.contains_key(k)).count();
    println!("selftest {}: {} seeds run twice (16 and 3 worker processes), {} divergences", prop, common, div);
    let out = json!({"property": prop, "seeds": common, "divergences": div});
    let _ = std::fs::create_dir_all(root().join("evidence"));
    let _ = std::fs::write(root().join("evidence").join(format!("selftest-{}.json", prop)), out.to_string());
    if div > 0 || common == 0 {
        2
    } else {
        0
    }
}
