//! E4: the real hyper server + `api::handle` + Store over a simulated transport. Request
//! sequences (fragmented, chunked, cut by disconnects, with open follow streams) are compared
//! with the same reference model as E3 after every request.

use std::collections::BTreeMap;

use base64::Engine as _;
use scru128::Scru128Id;
use serde::{Deserialize, Serialize};
use xs::store::{Frame, ReadOptions, TTL, ZERO_CONTEXT};

use crate::e3::{self, fresh_id, CtxRef, Exec, IdRef, Op};
use crate::http::{self, Conn, Response};
use crate::model::{fmt_frame, short_ctx, Tri};
use crate::props::RunResult;
use crate::rng::Rng;
use crate::world::{harness, violation, Stop, Violation, R};

pub const HTOPICS: &[&str] = &["a", "ab", "abc", "a.b", "t", "", "x-y_z"];

#[derive(Serialize, Deserialize, Clone, Debug, PartialEq)]
pub enum MetaSpec {
    None,
    Json(usize),
    BadBase64,
    BadUtf8,
    BadJson,
    NonAscii,
}

#[derive(Serialize, Deserialize, Clone, Debug, PartialEq)]
pub enum CtxParam {
    Absent,
    Ref(CtxRef),
    Malformed(String),
}

#[derive(Serialize, Deserialize, Clone, Debug, PartialEq)]
pub enum HOp {
    Append { topic: String, ctx: CtxParam, ttl: usize, meta: MetaSpec, body: usize, chunked: bool, chunk: usize, frag: u64, cut: Option<u32>, newconn: bool },
    Get { id: IdRef, malformed: Option<String> },
    Remove { id: IdRef, malformed: Option<String> },
    Head { topic: String, ctx: CtxParam },
    Cat { ctx: Option<CtxRef>, last: Option<IdRef>, limit: Option<usize>, sse: bool, bad: Option<String>, frag: u64 },
    CasPost { body: usize, chunked: bool, chunk: usize, frag: u64, cut: Option<u32> },
    CasGet { which: usize, idx: usize },
    Import { kind: usize, topic: String, ctx: CtxRef, ttl: usize, ts_off: i64, salt: u64 },
    Version,
    Unknown { method: String, path: String },
    /// several requests written back to back on one connection before any response is read
    Pipelined { kinds: Vec<usize>, frag: u64 },
    FollowOpen { kind: usize, ctx: Option<CtxRef>, topic: String, sse: bool },
    FollowClose { k: usize },
}

#[derive(Serialize, Deserialize, Clone, Debug, PartialEq)]
pub enum Step {
    S(Op),
    H(HOp),
}

#[derive(Serialize, Deserialize, Clone, Debug)]
pub struct Plan {
    pub prop: String,
    pub seed: u64,
    pub pipe: usize,
    pub ops: Vec<Step>,
    /// after every acknowledged mutating request take a process-kill image and check that the
    /// acknowledged change is in it (with the blocking pool stalled for some requests)
    #[serde(default)]
    pub kill_check: bool,
    #[serde(default)]
    pub stall_seed: u64,
}

/// (raw query value, parsed) - None raw = parameter absent
pub fn ttl_pool(i: usize) -> (Option<&'static str>, Option<TTL>) {
    use std::time::Duration;
    match i % 15 {
        0 | 1 | 2 => (None, Some(TTL::Forever)),
        3 => (Some("forever"), Some(TTL::Forever)),
        4 => (Some("ephemeral"), Some(TTL::Ephemeral)),
        5 => (Some("time:5"), Some(TTL::Time(Duration::from_millis(5)))),
        6 => (Some("time:60000"), Some(TTL::Time(Duration::from_millis(60000)))),
        7 => (Some("head:1"), Some(TTL::Head(1))),
        8 => (Some("head:2"), Some(TTL::Head(2))),
        9 => (Some("head:0"), None),
        10 => (Some("time:-1"), None),
        11 => (Some("time:99999999999999999999999"), None),
        12 => (Some("bogus"), None),
        13 => (Some("head:"), None),
        // the largest time TTL the query syntax can express
        _ => (Some("time:18446744073709551615"), Some(TTL::Time(Duration::from_millis(u64::MAX)))),
    }
}

pub fn body_pool(i: usize) -> Vec<u8> {
    match i % 8 {
        0 => vec![],
        1 => b"x".to_vec(),
        2 => vec![0xff, 0x00, 0xfe, 0x80, 0x0a, 0x0d],
        3 => vec![b'a'; 8191],
        4 => vec![b'b'; 8192],
        5 => (0..8193u32).map(|x| (x % 253) as u8).collect(),
        6 => (0..100_000u32).map(|x| (x % 251) as u8).collect(),
        _ => b"{\"json\":true}".to_vec(),
    }
}

fn meta_json(i: usize) -> serde_json::Value {
    e3::meta_pool(1 + (i % 6)).unwrap_or(serde_json::json!({"k": i}))
}

pub fn generate(seed: u64, prop: &str, thorough: bool) -> Plan {
    let mut rng = Rng::new(seed);
    let n = rng.range(5, if thorough { 45 } else { 32 });
    let mut ops: Vec<Step> = Vec::new();
    let nreg = rng.weighted(&[20, 40, 40]);
    for _ in 0..nreg {
        ops.push(Step::S(Op::Register { ctx: CtxRef::Zero, ttl: e3::TtlSpec::None }));
    }
    let gen_ctx = |rng: &mut Rng| -> CtxRef {
        match rng.weighted(&[40, 45, 10, 5]) {
            0 => CtxRef::Zero,
            1 => CtxRef::Reg(rng.below(3)),
            2 => CtxRef::Unreg(rng.below(2)),
            _ => CtxRef::Adj(rng.below(2)),
        }
    };
    let gen_id = |rng: &mut Rng| -> IdRef {
        match rng.weighted(&[75, 10, 5, 10]) {
            0 => IdRef::Nth(rng.below(64)),
            1 => IdRef::Fresh(rng.next_u64()),
            2 => IdRef::AboveAll,
            _ => IdRef::After(rng.below(64)),
        }
    };
    let topic = |rng: &mut Rng| rng.pick(HTOPICS).to_string();
    let w: Vec<u32> = match prop {
        "C06" => vec![30, 3, 3, 12, 16, 1, 1, 3, 0, 1, 14, 3, 5, 2, 2, 0],
        "C10" => vec![34, 4, 4, 3, 6, 12, 10, 2, 0, 1, 8, 2, 3, 1, 1, 0],
        "C20" => vec![30, 3, 6, 4, 8, 8, 4, 14, 0, 1, 3, 1, 4, 2, 2, 0],
        _ => vec![26, 7, 6, 7, 12, 5, 5, 6, 1, 6, 6, 2, 4, 2, 2, 3],
    };
    let mut follows = 0;
    for _ in 0..n {
        let k = rng.weighted(&w);
        let step = match k {
            0 => Step::H(HOp::Append {
                // (a few topics that do not fit the store's index key: 16 + topic + 1 + 16 bytes
                // must stay within 65535)
                topic: if prop == "C13" && rng.chance(4) { rng.pick(&["<long:65503>", "<long:66000>", "<long:65502>"]).to_string() } else { topic(&mut rng) },
                ctx: match rng.weighted(&[35, 55, 10]) {
                    0 => CtxParam::Absent,
                    1 => CtxParam::Ref(gen_ctx(&mut rng)),
                    _ => CtxParam::Malformed(rng.pick(&["zzz", "", "0", "03amo4vrpv4jp3hdfqyfx5wkeX"]).to_string()),
                },
                ttl: rng.below(if prop == "C13" { 15 } else { 9 }),
                meta: match rng.weighted(&[45, 35, 5, 5, 5, 5]) {
                    0 => MetaSpec::None,
                    1 => MetaSpec::Json(rng.below(6)),
                    2 => MetaSpec::BadBase64,
                    3 => MetaSpec::BadUtf8,
                    4 => MetaSpec::BadJson,
                    _ => MetaSpec::NonAscii,
                },
                body: rng.below(8),
                chunked: rng.chance(40),
                chunk: *rng.pick(&[1usize, 7, 100, 4096, 70_000]),
                frag: rng.next_u64(),
                cut: if rng.chance(10) { Some(rng.range(1, 999) as u32) } else { None },
                newconn: rng.chance(25),
            }),
            1 => Step::H(HOp::Get {
                id: gen_id(&mut rng),
                malformed: if rng.chance(20) { Some(rng.pick(&["foo", "03amo4vrpv4jp3hdfqyfx5wk", "../etc", "cas"]).to_string()) } else { None },
            }),
            2 => Step::H(HOp::Remove {
                id: gen_id(&mut rng),
                malformed: if rng.chance(15) { Some(rng.pick(&["foo", "head/a", "version"]).to_string()) } else { None },
            }),
            3 => Step::H(HOp::Head {
                topic: topic(&mut rng),
                ctx: match rng.weighted(&[30, 60, 10]) {
                    0 => CtxParam::Absent,
                    1 => CtxParam::Ref(gen_ctx(&mut rng)),
                    _ => CtxParam::Malformed("nope".to_string()),
                },
            }),
            4 => Step::H(HOp::Cat {
                ctx: if rng.chance(50) { None } else { Some(gen_ctx(&mut rng)) },
                last: if rng.chance(55) { None } else { Some(gen_id(&mut rng)) },
                limit: match rng.weighted(&[55, 15, 15, 15]) {
                    0 => None,
                    1 => Some(1),
                    2 => Some(2),
                    _ => Some(rng.range(3, 9)),
                },
                sse: rng.chance(35),
                bad: if rng.chance(12) { Some(rng.pick(&["limit=abc", "last-id=zzz", "context-id=q", "follow=maybe", "limit=-1"]).to_string()) } else { None },
                frag: rng.next_u64(),
            }),
            5 => Step::H(HOp::CasPost {
                body: rng.below(8),
                chunked: rng.chance(40),
                chunk: *rng.pick(&[1usize, 100, 4096]),
                frag: rng.next_u64(),
                cut: if rng.chance(10) { Some(rng.range(1, 999) as u32) } else { None },
            }),
            6 => Step::H(HOp::CasGet { which: rng.weighted(&[50, 15, 15, 20]), idx: rng.below(16) }),
            7 => Step::H(HOp::Import {
                kind: rng.weighted(&[44, 12, 12, 8, 12, 12]),
                topic: topic(&mut rng),
                ctx: gen_ctx(&mut rng),
                ttl: rng.below(9),
                // imported ids stay below later appended ids: an imported id above them makes the live
                // task of every follower drop those appends (same dedupe as the known C03 finding)
                ts_off: *rng.pick(&[-5000i64, -50, -1]),
                salt: rng.next_u64(),
            }),
            8 => Step::H(HOp::Version),
            9 => {
                let (m, p) = *rng.pick(&[
                    ("PUT", "/a"),
                    ("PATCH", "/"),
                    ("GET", "/foo/bar"),
                    ("DELETE", "/"),
                    ("GET", "/cas/"),
                    ("GET", "/cas/sha256-%%%"),
                    ("OPTIONS", "/"),
                    ("GET", "/version/x"),
                    ("HEAD", "/"),
                    ("GET", "//"),
                ]);
                Step::H(HOp::Unknown { method: m.to_string(), path: p.to_string() })
            }
            10 => {
                follows += 1;
                if follows > 3 {
                    Step::H(HOp::Version)
                } else {
                    Step::H(HOp::FollowOpen {
                        kind: rng.weighted(&[35, 25, 40]),
                        ctx: if rng.chance(35) { None } else { Some(gen_ctx(&mut rng)) },
                        topic: topic(&mut rng),
                        sse: rng.chance(30),
                    })
                }
            }
            11 => Step::H(HOp::FollowClose { k: rng.below(3) }),
            12 => Step::S(Op::Append {
                topic: topic(&mut rng),
                ctx: gen_ctx(&mut rng),
                ttl: match rng.weighted(&[60, 15, 10, 15]) {
                    0 => e3::TtlSpec::None,
                    1 => e3::TtlSpec::Ephemeral,
                    2 => e3::TtlSpec::Time(5),
                    _ => e3::TtlSpec::Head(2),
                },
                meta: rng.below(7),
                hash: rng.below(3),
            }),
            13 => Step::S(Op::Tick { ms: *rng.pick(&[1u64, 5, 10, 70_000]) }),
            15 => Step::H(HOp::Pipelined { kinds: (0..rng.range(2, 3)).map(|_| rng.below(5)).collect(), frag: rng.next_u64() }),
            _ => Step::S(Op::GcDrain),
        };
        ops.push(step);
    }
    ops.push(Step::S(Op::Settle));
    Plan {
        prop: prop.to_string(),
        seed,
        kill_check: prop == "C04",
        stall_seed: rng.next_u64(),
        // request/response connections: at least 1 KiB each way (an early 4xx for a request whose
        // body hyper has not read yet is followed by a close; with a pipe smaller than the
        // response that close truncates it - an artefact of the pipe, real sockets buffer it)
        pipe: *rng.pick(&[1024usize, 4096, 65536]),
        ops,
    }
}

struct Follow {
    conn: Conn,
    kind: usize,
    ctx: Option<Scru128Id>,
    head_ctx: Scru128Id,
    topic: String,
    sse: bool,
    head_parsed: bool,
    body_off: usize,
    text: Vec<u8>,
    frames: Vec<Frame>,
    /// index into Exec.accepted_log from which live frames are expected
    log_from: usize,
    checked: usize,
    history_checked: bool,
    open: bool,
    desc: String,
}

pub struct Exec4 {
    pub ex: Exec,
    engine: xs::nu::Engine,
    pipe: usize,
    main: Option<Conn>,
    follows: Vec<Follow>,
    cas_known: Vec<(ssri::Integrity, Vec<u8>)>,
    /// content-before-frame monitor: active while an HTTP request is being served
    cas_watch: std::sync::Arc<std::sync::atomic::AtomicBool>,
    cas_failures: std::sync::Arc<std::sync::Mutex<Vec<String>>>,
    prop: String,
    /// when set, HTTP connections are served by this store instead of the model-tracked one (C20's import target)
    alt_store: Option<xs::store::Store>,
    kill_check: bool,
    stall_rng: Rng,
    img_no: u32,
}

enum Outcome {
    Resp(Response),
    Dropped(String),
    Cut,
    /// no response while the blocking pool is stalled (the handler is waiting for it)
    Stalled,
}

thread_local! {
    static ENGINE: std::cell::RefCell<Option<xs::nu::Engine>> = const { std::cell::RefCell::new(None) };
}

fn base_engine() -> Result<xs::nu::Engine, String> {
    ENGINE.with(|e| {
        let mut e = e.borrow_mut();
        if e.is_none() {
            *e = Some(xs::nu::Engine::new().map_err(|x| x.to_string())?);
        }
        Ok(e.as_ref().unwrap().clone())
    })
}

impl Exec4 {
    fn new(tag: &str, plan: &Plan) -> R<Exec4> {
        let ex = Exec::new(tag, plan.seed, false)?;
        let engine = base_engine().map_err(Stop::Harness)?;
        let cas_watch = std::sync::Arc::new(std::sync::atomic::AtomicBool::new(false));
        let cas_failures: std::sync::Arc<std::sync::Mutex<Vec<String>>> = Default::default();
        {
            let watch = cas_watch.clone();
            let fails = cas_failures.clone();
            let cas_dir = ex.path.join("cacache");
            ex.w.ctrl.set_note_cb(Some(std::sync::Arc::new(move |site, text| {
                if site == "append.visible" && watch.load(std::sync::atomic::Ordering::SeqCst) {
                    let ok = text.parse::<ssri::Integrity>().ok().map(|h| cacache::read_hash_sync(&cas_dir, &h).is_ok()).unwrap_or(false);
                    if !ok {
                        fails.lock().unwrap().push(text.to_string());
                    }
                }
            })));
        }
        Ok(Exec4 {
            ex,
            engine,
            pipe: plan.pipe,
            main: None,
            follows: Vec::new(),
            cas_known: Vec::new(),
            cas_watch,
            cas_failures,
            alt_store: None,
            kill_check: plan.kill_check,
            prop: plan.prop.clone(),
            stall_rng: Rng::new(plan.stall_seed),
            img_no: 0,
        })
    }

    /// Run the tokio world and every history thread until nothing more moves (gc is not released).
    fn settle(&mut self) -> R<()> {
        let mut guard = 0;
        loop {
            guard += 1;
            if guard > 100_000 {
                return harness("settle does not terminate");
            }
            self.ex.w.wait()?;
            let mut progressed = false;
            if self.ex.w.tokio_runnable() {
                self.ex.w.step_tokio()?;
                progressed = true;
            }
            let en: Vec<_> = self.ex.w.ctrl.enabled().into_iter().filter(|e| e.actor_kind == "history").collect();
            if let Some(e) = en.first() {
                if let crate::ctrl::EnabledKind::Os(i) = e.kind {
                    self.ex.w.ctrl.release_os(i).map_err(Stop::Harness)?;
                    progressed = true;
                }
            }
            if !progressed {
                // one more step picks up wake-ups that arrived from the released threads
                self.ex.w.step_tokio()?;
                if !self.ex.w.tokio_runnable() && self.ex.w.ctrl.enabled().iter().all(|e| e.actor_kind != "history") {
                    return Ok(());
                }
            }
        }
    }

    fn conn(&mut self, fresh: bool) -> &mut Conn {
        let broken = self.main.as_ref().map(|c| c.client.is_none() || c.eof || c.task_result.is_some()).unwrap_or(true);
        if fresh || broken {
            let st = self.alt_store.clone().unwrap_or_else(|| self.ex.store().clone());
            self.main = Some(Conn::open(self.ex.w.rt(), &st, &self.engine, self.pipe));
            self.ex.w.probe("http:new-connection");
        } else {
            self.ex.w.probe("http:keep-alive");
        }
        self.main.as_mut().unwrap()
    }

    /// Send a request in seeded fragments (optionally cut off after `cut` permille of its
    /// bytes) and read the complete response.
    fn request(&mut self, bytes: &[u8], frag: u64, cut: Option<u32>, fresh: bool, head_only: bool) -> R<Outcome> {
        self.cas_watch.store(true, std::sync::atomic::Ordering::SeqCst);
        let stall = self.kill_check && self.alt_store.is_none() && self.stall_rng.chance(40);
        if stall {
            // fault: the blocking pool is saturated - jobs spawned by this request wait
            self.ex.w.stall_blocking();
            self.ex.w.probe("fault:blocking-pool-stalled");
        }
        let mut r = self.request_inner(bytes, frag, cut, fresh, head_only);
        if stall {
            let answered = matches!(&r, Ok(Outcome::Resp(resp)) if resp.status < 300);
            let held = self.ex.w.hold_blocking && self.ex.w.blocking_busy() > 0;
            if answered && held && bytes.starts_with(b"POST ") || answered && held && bytes.starts_with(b"DELETE ") {
                // the request was acknowledged while work for it is still queued: a process kill
                // right now must not lose the acknowledged change
                self.ex.w.probe("fault:acked-while-jobs-pending");
                if let Ok(Outcome::Resp(resp)) = &r {
                    if let Ok(f) = serde_json::from_slice::<Frame>(&resp.body) {
                        if f.ttl != Some(TTL::Ephemeral) {
                            if let Err(e) = self.kill_image_has(&f) {
                                let _ = self.ex.w.release_blocking();
                                self.cas_watch.store(false, std::sync::atomic::Ordering::SeqCst);
                                return Err(e);
                            }
                        }
                    }
                }
            }
            self.ex.w.release_blocking()?;
            if matches!(&r, Ok(Outcome::Stalled)) {
                // the handler was waiting for the stalled pool: it finishes now
                r = self.read_response(head_only);
            }
        }
        self.cas_watch.store(false, std::sync::atomic::Ordering::SeqCst);
        let fails: Vec<String> = std::mem::take(&mut *self.cas_failures.lock().unwrap());
        if let Some(h) = fails.first() {
            if self.kill_check {
                // C04: a process kill at that instant leaves a visible frame without its content
                return violation(
                    "crash/visible-without-content",
                    format!("a frame with hash {} was committed (append reached its broadcast) while that content was not yet in the CAS: a process kill at that instant leaves a visible frame whose content is missing", h),
                );
            }
            return violation(
                "cas/missing-when-visible",
                format!("a frame with hash {} became observable (append reached its broadcast) while that content was not yet retrievable from the CAS", h),
            );
        }
        r
    }

    /// Byte copy of the live directory = process-kill image; the acknowledged frame must be in it.
    fn kill_image_has(&mut self, f: &Frame) -> R<()> {
        self.img_no += 1;
        let img = self.ex.w.dir.join(format!("kill{}", self.img_no));
        e3::copy_dir_stable(&self.ex.path, &img).map_err(Stop::Harness)?;
        let st = self.ex.w.open_store(&img)?;
        let got = st.get(&f.id);
        let in_stream = st.read_sync(None, None, None).any(|x| x.id == f.id);
        self.ex.w.close_store(st, Some(img))?;
        self.ex.w.probe("image:kill-after-ack");
        if got.is_none() || !in_stream {
            return violation(
                "crash/acked-lost:http",
                format!(
                    "the request answered 2xx with {} but a process-kill image taken right after the response does not contain that frame (by id: {}, in the stream: {})",
                    fmt_frame(f),
                    got.is_some(),
                    in_stream
                ),
            );
        }
        Ok(())
    }

    fn request_inner(&mut self, bytes: &[u8], frag: u64, cut: Option<u32>, fresh: bool, head_only: bool) -> R<Outcome> {
        let mut rng = Rng::new(frag);
        let total = bytes.len();
        let limit = match cut {
            Some(p) => ((total as u64 * p as u64) / 1000).max(1).min(total as u64 - 1) as usize,
            None => total,
        };
        // fragment boundaries
        let mut cuts: Vec<usize> = Vec::new();
        let nfrag = rng.weighted(&[35, 25, 20, 20]);
        for _ in 0..nfrag {
            cuts.push(rng.below(limit.max(1)));
        }
        cuts.push(limit);
        cuts.sort();
        cuts.dedup();
        if cuts.len() > 1 {
            self.ex.w.probe("http:fragmented");
        }
        self.conn(fresh);
        let mut sent = 0usize;
        for end in cuts {
            let mut guard = 0;
            while sent < end {
                guard += 1;
                if guard > 20 * total + 100_000 {
                    return harness("request write does not progress");
                }
                let rt = self.ex.w.rt.as_ref().unwrap();
                let c = self.main.as_mut().unwrap();
                match c.try_write(rt, &bytes[sent..end]) {
                    Ok(0) => {
                        self.ex.w.probe("http:backpressure");
                        if self.ex.w.hold_blocking {
                            // the handler waits for the stalled pool and has stopped reading: the
                            // saturation ends here
                            self.ex.w.release_blocking()?;
                        }
                        self.settle()?;
                        let rt = self.ex.w.rt.as_ref().unwrap();
                        let c = self.main.as_mut().unwrap();
                        c.try_read(rt);
                        if c.poll_task(rt).is_some() && sent < end {
                            // server closed while we were still sending (it may have answered already)
                            break;
                        }
                    }
                    Ok(n) => sent += n,
                    Err(_) => break,
                }
            }
            self.settle()?;
        }
        if cut.is_some() {
            // disconnect in the middle of the request
            self.ex.w.probe("http:client-disconnect");
            if let Some(c) = self.main.as_mut() {
                c.close();
            }
            self.settle()?;
            self.main = None;
            return Ok(Outcome::Cut);
        }
        self.read_response(head_only)
    }

    fn read_response(&mut self, head_only: bool) -> R<Outcome> {
        let mut rounds = 0;
        loop {
            self.settle()?;
            let rt = self.ex.w.rt.as_ref().unwrap();
            let c = self.main.as_mut().unwrap();
            let got = c.try_read(rt);
            if let Some(r) = http::parse_response(&c.inbuf, c.eof, head_only) {
                c.inbuf.drain(..r.consumed.min(c.inbuf.len()));
                return Ok(Outcome::Resp(r));
            }
            if let Some(res) = c.poll_task(rt) {
                let why = match res {
                    Ok(()) => "the server closed the connection".to_string(),
                    Err(e) => format!("the connection task ended with: {}", e),
                };
                let partial = String::from_utf8_lossy(&c.inbuf).chars().take(80).collect::<String>();
                self.main = None;
                return Ok(Outcome::Dropped(format!("{} (received so far: {:?})", why, partial)));
            }
            if got == 0 {
                rounds += 1;
                if rounds > 3 {
                    if self.ex.w.hold_blocking {
                        return Ok(Outcome::Stalled);
                    }
                    let partial = String::from_utf8_lossy(&c.inbuf).chars().take(80).collect::<String>();
                    self.main = None;
                    return Ok(Outcome::Dropped(format!("no response although the server is idle (received so far: {:?})", partial)));
                }
            }
        }
    }

    fn ctx_param(&self, c: &CtxParam) -> (Option<String>, Option<Scru128Id>, bool) {
        // (query value, resolved id, malformed)
        match c {
            CtxParam::Absent => (None, Some(ZERO_CONTEXT), false),
            CtxParam::Ref(r) => {
                let id = self.ex.ctx(r);
                (Some(id.to_string()), Some(id), false)
            }
            CtxParam::Malformed(s) => (Some(s.clone()), None, true),
        }
    }

    fn check_store_vs_model(&mut self, what: &str) -> R<()> {
        let all: Vec<Frame> = self.ex.store().read_sync(None, None, None).collect();
        self.ex.model.check_read(&format!("{} (store after the request)", what), None, None, None, &all, None)
    }

    /// Whenever a frame with a hash is observable its content is retrievable: every frame in
    /// the stream whose content this run wrote must still read back byte for byte.
    fn check_cas_of_visible(&mut self, what: &str) -> R<()> {
        let all: Vec<Frame> = self.ex.store().read_sync(None, None, None).collect();
        for f in &all {
            if let Some(h) = &f.hash {
                if let Some((_, want)) = self.cas_known.iter().find(|(k, _)| k == h) {
                    match self.ex.store().cas_read_sync(h) {
                        Ok(b) if b == *want => {}
                        Ok(_) => return violation("cas/content-mismatch", format!("{}: content of the visible frame {} changed", what, fmt_frame(f))),
                        Err(e) => {
                            return violation(
                                "cas/missing-for-visible-frame",
                                format!("{}: {} is in the stream but its content is no longer retrievable: {}", what, fmt_frame(f), e),
                            )
                        }
                    }
                    self.ex.w.probe("cas:visible-content-checked");
                }
            }
        }
        Ok(())
    }

    fn parse_frames(&self, what: &str, body: &[u8], sse: bool) -> R<Vec<Frame>> {
        let text = String::from_utf8_lossy(body).to_string();
        let mut out = Vec::new();
        if sse {
            for ev in text.split("\n\n") {
                if ev.trim().is_empty() {
                    continue;
                }
                let mut id_line: Option<String> = None;
                let mut data: Option<String> = None;
                for l in ev.split('\n') {
                    if let Some(v) = l.strip_prefix("id: ") {
                        id_line = Some(v.to_string());
                    } else if let Some(v) = l.strip_prefix("data: ") {
                        data = Some(v.to_string());
                    }
                }
                let (Some(i), Some(d)) = (id_line, data) else {
                    return violation("http/sse-format", format!("{}: malformed SSE event {:?}", what, ev));
                };
                let f: Frame = match serde_json::from_str(&d) {
                    Ok(f) => f,
                    Err(e) => return violation("http/body-format", format!("{}: SSE data is not a frame: {} ({:?})", what, e, d)),
                };
                if f.id.to_string() != i {
                    return violation("http/sse-id", format!("{}: SSE id {} differs from the frame id {}", what, i, f.id));
                }
                out.push(f);
            }
        } else {
            for l in text.split('\n') {
                if l.is_empty() {
                    continue;
                }
                match serde_json::from_str::<Frame>(l) {
                    Ok(f) => out.push(f),
                    Err(e) => return violation("http/body-format", format!("{}: NDJSON line is not a frame: {} ({:?})", what, e, l.chars().take(120).collect::<String>())),
                }
            }
        }
        Ok(out)
    }

    fn expect_status(&mut self, what: &str, r: &Response, ok: &[u16], class: &str) -> R<()> {
        if !ok.contains(&r.status) {
            return violation(
                class,
                format!("{}: status {} (body {:?}), expected one of {:?}", what, r.status, String::from_utf8_lossy(&r.body).chars().take(120).collect::<String>(), ok),
            );
        }
        Ok(())
    }

    fn dropped(&mut self, what: &str, why: String) -> R<()> {
        // the server must still serve the next request
        let probe = http::build_request("GET", "/version", &[], None, false, 0);
        let alive = matches!(self.request(&probe, 1, None, true, false)?, Outcome::Resp(r) if r.status == 200);
        violation(
            "http/dropped-connection",
            format!("{}: the request was completely sent but no HTTP response came back: {} (server still serves new connections: {})", what, why, alive),
        )
    }

    fn apply(&mut self, i: usize, op: &HOp) -> R<()> {
        let what = format!("op{} {}", i, short(op));
        match op {
            HOp::Append { topic, ctx, ttl, meta, body, chunked, chunk, frag, cut, newconn } => {
                let long_topic: Option<usize> = topic.strip_prefix("<long:").and_then(|t| t.strip_suffix('>')).and_then(|n| n.parse().ok());
                let expanded;
                let topic: &String = match long_topic {
                    Some(n) => {
                        expanded = "t".repeat(n);
                        self.ex.w.probe("http:oversize-topic");
                        &expanded
                    }
                    None => topic,
                };
                // the index key (context, topic, delimiter, id) must fit 65535 bytes
                let topic_too_long = topic.len() > 65535 - 33;
                let (ctxq, ctxid, ctx_bad) = self.ctx_param(ctx);
                let (ttl_raw, ttl_val) = ttl_pool(*ttl);
                let mut q: Vec<String> = Vec::new();
                if let Some(t) = ttl_raw {
                    q.push(format!("ttl={}", t));
                }
                if let Some(c) = &ctxq {
                    q.push(format!("context={}", c));
                }
                let target = if q.is_empty() { format!("/{}", topic) } else { format!("/{}?{}", topic, q.join("&")) };
                let b64 = base64::engine::general_purpose::STANDARD;
                let (meta_hdr, meta_val, meta_bad, meta_panic): (Option<Vec<u8>>, Option<serde_json::Value>, bool, bool) = match meta {
                    MetaSpec::None => (None, None, false, false),
                    MetaSpec::Json(k) => {
                        let v = meta_json(*k);
                        (Some(b64.encode(v.to_string()).into_bytes()), Some(v), false, false)
                    }
                    MetaSpec::BadBase64 => (Some(b"!!!not-base64!!!".to_vec()), None, true, false),
                    // invalid UTF-8 on its own, or inside a JSON string literal of an otherwise
                    // well-formed object (a lossy decoder would let the second kind through)
                    MetaSpec::BadUtf8 if i % 2 == 0 => (Some(b64.encode([0xffu8, 0xfe, 0xfd]).into_bytes()), None, true, false),
                    MetaSpec::BadUtf8 => (Some(b64.encode(b"{\"who\":\"b\xe9b\xe9\"}").into_bytes()), None, true, false),
                    MetaSpec::BadJson => (Some(b64.encode("{not json").into_bytes()), None, true, false),
                    MetaSpec::NonAscii => (Some(vec![b'e', 0xe9, 0xff, b'x']), None, true, true),
                };
                let mut headers: Vec<(String, Vec<u8>)> = Vec::new();
                if let Some(h) = meta_hdr {
                    headers.push(("xs-meta".to_string(), h));
                }
                let bytes_body = body_pool(*body);
                let send_body = !bytes_body.is_empty() || *chunked;
                let req = http::build_request("POST", &target, &headers, if send_body { Some(&bytes_body) } else { None }, *chunked, *chunk);
                if *chunked && bytes_body.len() > 0 {
                    self.ex.w.probe("http:chunked-body");
                }
                if bytes_body.len() > 8192 {
                    self.ex.w.probe("http:body>8KiB");
                }
                if bytes_body.is_empty() {
                    self.ex.w.probe("http:bodyless-append");
                }
                let before_log = self.ex.accepted_log.len();
                let out = self.request(&req, *frag, *cut, *newconn, false)?;
                let model_expect = match ctxid {
                    Some(c) => self.ex.model.expect_append(topic, &c),
                    None => Tri::Absent,
                };
                match out {
                    Outcome::Stalled => {}
                    Outcome::Cut => {
                        // a request cut before it was complete changes nothing
                        let _ = before_log;
                        // (C10: a frame stored for an upload that never arrived in full reports a hash
                        // whose content is not what the client wrote)
                        let class = if self.prop == "C10" { "cas/truncated-upload-stored" } else { "http/effect-after-disconnect" };
                        self.check_store_vs_model(&format!("{} [client disconnected mid-request]", what)).map_err(|e| reclass(e, class))?;
                    }
                    Outcome::Dropped(why) => {
                        let _ = meta_panic;
                        return self.dropped(&what, why);
                    }
                    Outcome::Resp(r) => {
                        let route_reject = ctx_bad || ttl_val.is_none();
                        if long_topic.is_some() && (r.status == 414 || r.status == 431) {
                            // the request target itself is beyond what the HTTP layer accepts
                            self.check_store_vs_model(&format!("{} [rejected with {}]", what, r.status)).map_err(|e| reclass(e, "http/effect-of-failed-request"))?;
                        } else if topic_too_long {
                            // (like an append the store refuses for its context: an error status)
                            if r.status < 400 {
                                return violation("http/status", format!("{}: status {} for a topic of {} bytes, which cannot be stored", what, r.status, topic.len()));
                            }
                            self.check_store_vs_model(&format!("{} [rejected with {}]", what, r.status)).map_err(|e| reclass(e, "http/effect-of-failed-request"))?;
                        } else if route_reject || meta_bad {
                            self.expect_status(&what, &r, &[400], "http/status")?;
                            self.ex.w.probe("http:400");
                            self.check_store_vs_model(&format!("{} [rejected with {}]", what, r.status)).map_err(|e| reclass(e, "http/effect-of-failed-request"))?;
                        } else if model_expect == Tri::Absent {
                            if r.status < 400 {
                                return violation("http/status", format!("{}: status {} although the store must reject this append", what, r.status));
                            }
                            self.ex.w.probe("http:store-rejected");
                            self.check_store_vs_model(&format!("{} [rejected with {}]", what, r.status)).map_err(|e| reclass(e, "http/effect-of-failed-request"))?;
                        } else if r.status != 200 {
                            if model_expect == Tri::May && r.status >= 400 {
                                self.check_store_vs_model(&what)?;
                            } else {
                                return violation("http/status", format!("{}: status {} (body {:?}) for a valid append", what, r.status, String::from_utf8_lossy(&r.body).chars().take(160).collect::<String>()));
                            }
                        } else {
                            let f: Frame = match serde_json::from_slice(&r.body) {
                                Ok(f) => f,
                                Err(e) => return violation("http/body-format", format!("{}: response is not a frame: {}", what, e)),
                            };
                            let want_hash = if bytes_body.is_empty() { None } else { Some(ssri::Integrity::from(&bytes_body)) };
                            let want_ttl = if topic == "xs.context" { Some(TTL::Forever) } else { ttl_val.clone() };
                            let meta_norm = |m: &Option<serde_json::Value>| if *m == Some(serde_json::Value::Null) { None } else { m.clone() };
                            if f.topic != *topic || Some(f.context_id) != ctxid || meta_norm(&f.meta) != meta_norm(&meta_val) || f.ttl != want_ttl {
                                return violation(
                                    "http/append-fields",
                                    format!("{}: appended frame {} does not match the request (topic {:?}, context {:?}, ttl {:?}, meta {:?})", what, fmt_frame(&f), topic, ctxid.map(|c| short_ctx(&c)), want_ttl, meta_val),
                                );
                            }
                            if f.hash != want_hash {
                                let class = if bytes_body.is_empty() { "cas/hash-for-empty-body" } else { "cas/hash-mismatch" };
                                return violation(class, format!("{}: frame hash {:?} but the body hashes to {:?}", what, f.hash.as_ref().map(|h| h.to_string()), want_hash.as_ref().map(|h| h.to_string())));
                            }
                            if let Some(last) = self.ex.model.last_append_id {
                                if f.id <= last {
                                    return violation("append/id-not-increasing", format!("{}: id {} after {}", what, f.id, last));
                                }
                            }
                            if let Some(h) = &f.hash {
                                match self.ex.store().cas_read_sync(h) {
                                    Ok(b) if b == bytes_body => {}
                                    Ok(_) => return violation("cas/content-mismatch", format!("{}: content stored under {} differs from the request body", what, h)),
                                    Err(e) => return violation("cas/missing-after-append", format!("{}: content {} of the appended frame is not readable: {}", what, h, e)),
                                }
                                if !self.cas_known.iter().any(|(k, _)| k == h) {
                                    self.cas_known.push((h.clone(), bytes_body.clone()));
                                }
                            }
                            self.ex.note_accepted(&f);
                            self.ex.w.probe("http:append-ok");
                            let got = self.ex.store().get(&f.id);
                            self.ex.model.check_get(&format!("{} (lookup of the appended frame)", what), &f.id, got.as_ref())?;
                        }
                    }
                }
            }
            HOp::Get { id, malformed } => {
                let idv = self.ex.idref(id);
                let target = match malformed {
                    Some(m) => format!("/{}", m),
                    None => format!("/{}", idv),
                };
                let req = http::build_request("GET", &target, &[], None, false, 0);
                match self.request(&req, 0, None, false, false)? {
                    Outcome::Resp(r) => {
                        if malformed.is_some() {
                            self.expect_status(&what, &r, &[400], "http/status")?;
                            self.ex.w.probe("http:400");
                        } else if r.status == 404 {
                            self.ex.model.check_get(&what, &idv, None)?;
                            self.ex.w.probe("http:404");
                        } else {
                            self.expect_status(&what, &r, &[200], "http/status")?;
                            let f: Frame = serde_json::from_slice(&r.body).map_err(|e| Stop::Violation(Violation::new("http/body-format", format!("{}: {}", what, e))))?;
                            self.ex.model.check_get(&what, &idv, Some(&f))?;
                            let direct = self.ex.store().get(&idv);
                            if direct.as_ref() != Some(&f) {
                                return violation("http/differs-from-store", format!("{}: HTTP returned {} but Store::get returns {:?}", what, fmt_frame(&f), direct.as_ref().map(fmt_frame)));
                            }
                        }
                    }
                    Outcome::Dropped(why) => return self.dropped(&what, why),
                    Outcome::Cut | Outcome::Stalled => {}
                }
            }
            HOp::Remove { id, malformed } => {
                let idv = self.ex.idref(id);
                let target = match malformed {
                    Some(m) => format!("/{}", m),
                    None => format!("/{}", idv),
                };
                let req = http::build_request("DELETE", &target, &[], None, false, 0);
                match self.request(&req, 0, None, false, false)? {
                    Outcome::Resp(r) => {
                        if malformed.is_some() {
                            self.expect_status(&what, &r, &[400], "http/status")?;
                            self.check_store_vs_model(&what).map_err(|e| reclass(e, "http/effect-of-failed-request"))?;
                        } else {
                            self.expect_status(&what, &r, &[204], "http/status")?;
                            if self.ex.model.frames.get(&idv).map(|f| !f.removed).unwrap_or(false) {
                                self.ex.w.probe("remove:live");
                            }
                            self.ex.model.remove(&idv);
                            let got = self.ex.store().get(&idv);
                            self.ex.model.check_get(&format!("{} (lookup after DELETE)", what), &idv, got.as_ref())?;
                            self.check_cas_of_visible(&format!("{} (after DELETE)", what))?;
                        }
                    }
                    Outcome::Dropped(why) => return self.dropped(&what, why),
                    Outcome::Cut | Outcome::Stalled => {}
                }
            }
            HOp::Head { topic, ctx } => {
                let (ctxq, ctxid, ctx_bad) = self.ctx_param(ctx);
                let target = match &ctxq {
                    Some(c) => format!("/head/{}?context={}", topic, c),
                    None => format!("/head/{}", topic),
                };
                let req = http::build_request("GET", &target, &[], None, false, 0);
                match self.request(&req, 0, None, false, false)? {
                    Outcome::Resp(r) => {
                        if ctx_bad {
                            self.expect_status(&what, &r, &[400], "http/status")?;
                        } else {
                            let c = ctxid.unwrap();
                            if r.status == 404 {
                                self.ex.model.check_head(&what, topic, &c, None)?;
                            } else {
                                self.expect_status(&what, &r, &[200], "http/status")?;
                                let f: Frame = serde_json::from_slice(&r.body).map_err(|e| Stop::Violation(Violation::new("http/body-format", format!("{}: {}", what, e))))?;
                                if f.context_id != c {
                                    return violation("ctx/leak:http-head", format!("{}: head scoped to {} returned {}", what, short_ctx(&c), fmt_frame(&f)));
                                }
                                self.ex.model.check_head(&what, topic, &c, Some(&f))?;
                            }
                            self.ex.w.probe("http:head");
                        }
                    }
                    Outcome::Dropped(why) => return self.dropped(&what, why),
                    Outcome::Cut | Outcome::Stalled => {}
                }
            }
            HOp::Cat { ctx, last, limit, sse, bad, frag } => {
                let c = ctx.as_ref().map(|c| self.ex.ctx(c));
                let l = last.as_ref().map(|l| self.ex.idref(l));
                let opts = ReadOptions::builder().maybe_context_id(c).maybe_last_id(l).maybe_limit(*limit).build();
                let mut q = opts.to_query_string();
                if let Some(b) = bad {
                    q = if q.is_empty() { b.clone() } else { format!("{}&{}", q, b) };
                }
                let target = if q.is_empty() { "/".to_string() } else { format!("/?{}", q) };
                let mut headers = Vec::new();
                if *sse {
                    headers.push(("accept".to_string(), b"text/event-stream".to_vec()));
                }
                let req = http::build_request("GET", &target, &headers, None, false, 0);
                match self.request(&req, *frag, None, false, false)? {
                    Outcome::Resp(r) => {
                        if bad.is_some() {
                            self.expect_status(&what, &r, &[400], "http/status")?;
                            self.ex.w.probe("http:400");
                        } else {
                            self.expect_status(&what, &r, &[200], "http/status")?;
                            let want_ct = if *sse { "text/event-stream" } else { "application/x-ndjson" };
                            if r.headers.get("content-type").map(|s| s.as_str()) != Some(want_ct) {
                                return violation("http/content-type", format!("{}: content-type {:?}, expected {}", what, r.headers.get("content-type"), want_ct));
                            }
                            let frames = self.parse_frames(&what, &r.body, *sse)?;
                            if let Some(cid) = c {
                                if let Some(f) = frames.iter().find(|f| f.context_id != cid) {
                                    return violation("ctx/leak:http-cat", format!("{}: GET / scoped to {} returned {}", what, short_ctx(&cid), fmt_frame(f)));
                                }
                            }
                            self.ex.model.check_read(&what, c, l, *limit, &frames, None)?;
                            let direct: Vec<Frame> = self.ex.store().read_sync(l.as_ref(), *limit, c).collect();
                            if direct != frames {
                                return violation(
                                    "http/differs-from-store",
                                    format!("{}: HTTP returned ids [{}] but Store::read_sync returns [{}]", what, ids(&frames), ids(&direct)),
                                );
                            }
                            self.ex.w.probe(if *sse { "http:cat-sse" } else { "http:cat-ndjson" });
                        }
                    }
                    Outcome::Dropped(why) => return self.dropped(&what, why),
                    Outcome::Cut | Outcome::Stalled => {}
                }
            }
            HOp::CasPost { body, chunked, chunk, frag, cut } => {
                let b = body_pool(*body);
                let req = http::build_request("POST", "/cas", &[], Some(&b), *chunked, *chunk);
                match self.request(&req, *frag, *cut, false, false)? {
                    Outcome::Resp(r) => {
                        if b.is_empty() {
                            self.expect_status(&what, &r, &[400], "cas/empty-post-status")?;
                            self.ex.w.probe("cas:empty-post");
                        } else {
                            self.expect_status(&what, &r, &[200], "http/status")?;
                            let want = ssri::Integrity::from(&b);
                            let got = String::from_utf8_lossy(&r.body).to_string();
                            if got != want.to_string() {
                                return violation("cas/hash-mismatch", format!("{}: POST /cas answered {} but the bytes hash to {}", what, got, want));
                            }
                            match self.ex.store().cas_read_sync(&want) {
                                Ok(x) if x == b => {}
                                _ => return violation("cas/content-mismatch", format!("{}: content posted to /cas does not read back", what)),
                            }
                            if !self.cas_known.iter().any(|(k, _)| *k == want) {
                                self.cas_known.push((want, b));
                            }
                            self.ex.w.probe("cas:post");
                        }
                    }
                    Outcome::Dropped(why) => return self.dropped(&what, why),
                    Outcome::Cut | Outcome::Stalled => {}
                }
            }
            HOp::CasGet { which, idx } => {
                let (target, known): (String, Option<Vec<u8>>) = match which {
                    0 if !self.cas_known.is_empty() => {
                        let (h, b) = &self.cas_known[idx % self.cas_known.len()];
                        (format!("/cas/{}", h), Some(b.clone()))
                    }
                    3 => {
                        // content of the body pool: looked up before and after it is written
                        // (through whichever entry point writes it)
                        let b = body_pool(*idx);
                        let h = ssri::Integrity::from(&b[..]);
                        if b.is_empty() {
                            (format!("/cas/{}", ssri::Integrity::from(format!("never-written-{}", idx).as_bytes())), None)
                        } else if self.cas_known.iter().any(|(k, _)| *k == h) {
                            self.ex.w.probe("cas:get-pool-written");
                            (format!("/cas/{}", h), Some(b))
                        } else {
                            self.ex.w.probe("cas:get-pool-before-write");
                            (format!("/cas/{}", h), None)
                        }
                    }
                    2 => {
                        // malformed digests: foreign characters, right alphabet but undecodable
                        // (length, padding), truncated real hash, empty digest, unknown algorithm
                        let truncated = self
                            .cas_known
                            .first()
                            .map(|(h, _)| { let h = h.to_string(); h[..h.len().saturating_sub(3)].to_string() })
                            .unwrap_or_else(|| "sha256-47DEQpj8HBSa+/TImW+5JCeuQeRkm5NMpJWZG3hSuF".to_string());
                        let pool = [
                            "sha256-@@@not-base64@@@".to_string(),
                            "sha256-abc".to_string(),
                            "sha256-ab=c".to_string(),
                            "sha256-a".to_string(),
                            truncated,
                            "sha256-".to_string(),
                            "sha256-====".to_string(),
                            "sha256-AAAA".to_string(),
                            "md5-abc".to_string(),
                            "nothash".to_string(),
                        ];
                        self.ex.w.probe(&format!("cas:malformed-{}", idx % pool.len()));
                        (format!("/cas/{}", pool[idx % pool.len()]), None)
                    }
                    _ => (format!("/cas/{}", ssri::Integrity::from(format!("never-written-{}", idx).as_bytes())), None),
                };
                let malformed = *which == 2;
                let req = http::build_request("GET", &target, &[], None, false, 0);
                match self.request(&req, 0, None, false, false)? {
                    Outcome::Resp(r) => match known {
                        Some(b) => {
                            // (C10: content that was written must be returned by its hash)
                            let class = if self.prop == "C10" { "cas/written-content-not-served" } else { "http/status" };
                            self.expect_status(&what, &r, &[200], class)?;
                            if r.body != b {
                                return violation("cas/content-mismatch", format!("{}: GET {} returned {} bytes, {} were written", what, target, r.body.len(), b.len()));
                            }
                            self.ex.w.probe("cas:get");
                        }
                        None => {
                            if malformed {
                                if !(400..500).contains(&r.status) {
                                    return violation("http/status", format!("{}: status {} for GET {} (a malformed digest is a client error)", what, r.status, target));
                                }
                            } else if *which == 3 && r.status == 200 {
                                // the bytes may be in the CAS through a request that failed after
                                // writing its content; then they must be exactly these bytes
                                if r.body != body_pool(*idx) {
                                    return violation("cas/content-mismatch", format!("{}: GET {} returned {} bytes that are not the content with that hash", what, target, r.body.len()));
                                }
                            } else if r.status < 400 {
                                return violation("http/status", format!("{}: status {} for content that was never written", what, r.status));
                            }
                            self.ex.w.probe("cas:get-unknown");
                        }
                    },
                    Outcome::Dropped(why) => return self.dropped(&what, why),
                    Outcome::Cut | Outcome::Stalled => {}
                }
            }
            HOp::Import { kind, topic, ctx, ttl, ts_off, salt } => {
                let c = self.ex.ctx(ctx);
                let ts = (self.ex.model.now as i64 + ts_off).max(1) as u64;
                let mut id = fresh_id(ts, *salt);
                while self.ex.model.frames.contains_key(&id) || self.ex.issued.contains(&id) {
                    id = Scru128Id::from_u128(id.to_u128() + 1);
                }
                let (_, ttlv) = ttl_pool(*ttl);
                let ttlv = match ttlv {
                    Some(TTL::Ephemeral) | None => Some(TTL::Forever),
                    other => other,
                };
                let mut frame = Frame::builder(topic.clone(), c).id(id).maybe_ttl(ttlv).meta(serde_json::json!({"imported": true})).build();
                let mut body: Vec<u8>;
                let mut expect_ok = true;
                let mut bad_json = false;
                match kind {
                    1 => {
                        // re-import of an existing frame
                        let known: Vec<&crate::model::MFrame> = self.ex.model.frames.values().collect();
                        if let Some(m) = known.get((*salt as usize) % known.len().max(1)) {
                            frame = m.frame.clone();
                        }
                        body = serde_json::to_vec(&frame).unwrap();
                    }
                    5 => {
                        // re-import of an existing id with a different meta: the import replaces
                        // the stored record, as Store::insert_frame does
                        let known: Vec<&crate::model::MFrame> = self.ex.model.frames.values().filter(|m| !m.removed && m.frame.topic != "xs.context").collect();
                        if let Some(m) = known.get((*salt as usize) % known.len().max(1)) {
                            frame = m.frame.clone();
                            frame.meta = Some(serde_json::json!({"imported": true, "rev": salt % 1000}));
                            self.ex.w.probe("import:replaced-existing");
                        }
                        body = serde_json::to_vec(&frame).unwrap();
                    }
                    2 => {
                        body = b"{\"topic\": \"a\", \"id\": ".to_vec();
                        bad_json = true;
                        expect_ok = false;
                    }
                    3 => {
                        frame.topic = "a\0b".to_string();
                        body = serde_json::to_vec(&frame).unwrap();
                        expect_ok = false;
                    }
                    4 => {
                        frame = Frame::builder("xs.context", ZERO_CONTEXT).id(id).ttl(TTL::Forever).build();
                        body = serde_json::to_vec(&frame).unwrap();
                    }
                    _ => {
                        body = serde_json::to_vec(&frame).unwrap();
                    }
                }
                if body.is_empty() {
                    body = b"{}".to_vec();
                }
                let req = http::build_request("POST", "/import", &[], Some(&body), false, 0);
                match self.request(&req, *salt, None, false, false)? {
                    Outcome::Resp(r) => {
                        if bad_json {
                            self.expect_status(&what, &r, &[400], "http/status")?;
                            self.check_store_vs_model(&what).map_err(|e| reclass(e, "http/effect-of-failed-request"))?;
                            self.ex.w.probe("import:rejected");
                        } else if !expect_ok {
                            if r.status < 400 {
                                return violation("import/accepted-invalid", format!("{}: status {} for a frame with a NUL topic", what, r.status));
                            }
                            self.check_store_vs_model(&what).map_err(|e| reclass(e, "import/partial"))?;
                            self.ex.w.probe("import:rejected");
                        } else {
                            self.expect_status(&what, &r, &[200], "http/status")?;
                            let echoed: Frame = serde_json::from_slice(&r.body).map_err(|e| Stop::Violation(Violation::new("http/body-format", format!("{}: {}", what, e))))?;
                            if crate::model::norm(&echoed) != crate::model::norm(&frame) {
                                return violation("import/rewritten", format!("{}: import answered {} for {}", what, fmt_frame(&echoed), fmt_frame(&frame)));
                            }
                            self.ex.note_imported(&frame);
                            let got = self.ex.store().get(&frame.id);
                            self.ex.model.check_get(&format!("{} (lookup of the imported frame)", what), &frame.id, got.as_ref())?;
                        }
                    }
                    Outcome::Dropped(why) => return self.dropped(&what, why),
                    Outcome::Cut | Outcome::Stalled => {}
                }
            }
            HOp::Version => {
                let req = http::build_request("GET", "/version", &[], None, false, 0);
                match self.request(&req, 0, None, false, false)? {
                    Outcome::Resp(r) => {
                        self.expect_status(&what, &r, &[200], "http/status")?;
                        let v: serde_json::Value = serde_json::from_slice(&r.body).unwrap_or(serde_json::Value::Null);
                        if !v.get("version").map(|x| x.is_string()).unwrap_or(false) {
                            return violation("http/body-format", format!("{}: /version answered {:?}", what, String::from_utf8_lossy(&r.body)));
                        }
                    }
                    Outcome::Dropped(why) => return self.dropped(&what, why),
                    Outcome::Cut | Outcome::Stalled => {}
                }
            }
            HOp::Unknown { method, path } => {
                let req = http::build_request(method, path, &[], None, false, 0);
                let head_only = method == "HEAD";
                match self.request(&req, 0, None, false, head_only)? {
                    Outcome::Resp(r) => {
                        if !(400..500).contains(&r.status) {
                            return violation("http/status", format!("{}: status {} for a request no route accepts", what, r.status));
                        }
                        self.check_store_vs_model(&what).map_err(|e| reclass(e, "http/effect-of-failed-request"))?;
                        self.ex.w.probe("http:unknown-route");
                    }
                    Outcome::Dropped(why) => return self.dropped(&what, why),
                    Outcome::Cut | Outcome::Stalled => {}
                }
            }
            HOp::Pipelined { kinds, frag } => {
                let table: [(&str, &str, u16); 5] = [
                    ("GET", "/version", 200),
                    ("GET", "/not-an-id", 400),
                    ("PUT", "/x", 404),
                    ("GET", "/head/never-used-topic", 404),
                    ("DELETE", "/zzz", 400),
                ];
                let mut bytes = Vec::new();
                for k in kinds {
                    let (m, p, _) = table[k % table.len()];
                    bytes.extend_from_slice(&http::build_request(m, p, &[], None, false, 0));
                }
                let first = self.request(&bytes, *frag, None, true, false)?;
                let mut outs = vec![first];
                for _ in 1..kinds.len() {
                    outs.push(self.read_response(false)?);
                }
                for (i2, (k, out)) in kinds.iter().zip(outs.into_iter()).enumerate() {
                    let (m, p, want) = table[k % table.len()];
                    match out {
                        Outcome::Resp(r) => {
                            if r.status != want {
                                return violation("http/status", format!("{}: pipelined request #{} ({} {}) answered {}, expected {}", what, i2, m, p, r.status, want));
                            }
                        }
                        Outcome::Dropped(why) => return self.dropped(&format!("{} pipelined request #{} ({} {})", what, i2, m, p), why),
                        _ => {}
                    }
                }
                self.ex.w.probe("http:pipelined");
            }
            HOp::FollowOpen { kind, ctx, topic, sse } => {
                let c = ctx.as_ref().map(|c| self.ex.ctx(c));
                let (target, desc) = match kind {
                    2 => {
                        let cid = c.unwrap_or(ZERO_CONTEXT);
                        let t = if c.is_some() { format!("/head/{}?follow=true&context={}", topic, cid) } else { format!("/head/{}?follow=true", topic) };
                        (t, format!("GET /head/{}?follow (context {})", topic, short_ctx(&cid)))
                    }
                    k => {
                        let opts = ReadOptions::builder().follow(xs::store::FollowOption::On).tail(*k == 0).maybe_context_id(c).build();
                        (format!("/?{}", opts.to_query_string()), format!("GET /?follow tail={} (context {})", *k == 0, c.map(|x| short_ctx(&x)).unwrap_or("all".into())))
                    }
                };
                let mut headers = Vec::new();
                let use_sse = *sse && *kind != 2;
                if use_sse {
                    headers.push(("accept".to_string(), b"text/event-stream".to_vec()));
                }
                let req = http::build_request("GET", &target, &headers, None, false, 0);
                let fpipe = [64usize, 512, 4096][(self.pipe / 1024) % 3];
        let mut conn = Conn::open(self.ex.w.rt(), self.ex.store(), &self.engine, fpipe);
                let mut sent = 0;
                let mut guard = 0;
                while sent < req.len() {
                    guard += 1;
                    if guard > 100_000 {
                        return harness("follow request write stuck");
                    }
                    let n = conn.try_write(self.ex.w.rt(), &req[sent..]).unwrap_or(0);
                    if n == 0 {
                        self.settle()?;
                    }
                    sent += n;
                }
                // expected head frame for head-follow is decided now (before the server runs)
                let log_from = self.ex.accepted_log.len();
                self.follows.push(Follow {
                    conn,
                    kind: *kind,
                    ctx: c,
                    head_ctx: c.unwrap_or(ZERO_CONTEXT),
                    topic: topic.clone(),
                    sse: use_sse,
                    head_parsed: false,
                    body_off: 0,
                    text: Vec::new(),
                    frames: Vec::new(),
                    log_from,
                    checked: 0,
                    history_checked: false,
                    open: true,
                    desc,
                });
                self.ex.w.probe(match kind {
                    2 => "follow:head",
                    1 => "follow:history",
                    _ => "follow:tail",
                });
                self.drain_follows(&what)?;
            }
            HOp::FollowClose { k } => {
                if !self.follows.is_empty() {
                    let idx = k % self.follows.len();
                    if self.follows[idx].open {
                        self.drain_follows(&what)?;
                        self.follows[idx].open = false;
                        self.follows[idx].conn.close();
                        self.settle()?;
                        self.ex.w.probe("follow:client-closed");
                    }
                }
            }
        }
        Ok(())
    }

    /// Read what the open follow streams delivered and compare with what they must deliver.
    fn drain_follows(&mut self, what: &str) -> R<()> {
        if self.follows.is_empty() {
            return Ok(());
        }
        // pull until the streams are dry (small pipes hand over a few bytes per server step)
        let mut guard = 0;
        loop {
            guard += 1;
            if guard > 1_000_000 {
                return harness("follow streams never run dry");
            }
            self.settle()?;
            let mut got = 0;
            let rt = self.ex.w.rt.as_ref().unwrap();
            for fl in self.follows.iter_mut() {
                if fl.open {
                    got += fl.conn.try_read(rt);
                }
            }
            if got == 0 {
                break;
            }
        }
        for k in 0..self.follows.len() {
            if !self.follows[k].open {
                continue;
            }
            let rt = self.ex.w.rt.as_ref().unwrap();
            let fl = &mut self.follows[k];
            if std::env::var("XS_SIM_DEBUG").is_ok() {
                eprintln!("follow {} inbuf={} eof={} head_parsed={} body_off={} task={:?} buf={:?}", k, fl.conn.inbuf.len(), fl.conn.eof, fl.head_parsed, fl.body_off, fl.conn.task_result, String::from_utf8_lossy(&fl.conn.inbuf).chars().take(300).collect::<String>());
            }
            if !fl.head_parsed {
                if let Some(h) = http::parse_head(&fl.conn.inbuf) {
                    if h.status != 200 {
                        return violation("http/status", format!("{}: {} answered {}", what, fl.desc, h.status));
                    }
                    fl.head_parsed = true;
                    fl.body_off = h.head_len;
                } else if fl.conn.poll_task(rt).is_some() || fl.conn.eof {
                    return violation("http/dropped-connection", format!("{}: {} got no response head", what, fl.desc));
                } else {
                    continue;
                }
            }
            let (payload, used, done) = http::decode_chunks(&fl.conn.inbuf[fl.body_off..]);
            fl.body_off += used;
            fl.text.extend_from_slice(&payload);
            let _ = done;
            // complete records only
            let sep: &[u8] = if fl.sse { b"\n\n" } else { b"\n" };
            let mut cut = 0;
            let mut i = 0;
            while i + sep.len() <= fl.text.len() {
                if &fl.text[i..i + sep.len()] == sep {
                    cut = i + sep.len();
                    i += sep.len();
                } else {
                    i += 1;
                }
            }
            let complete: Vec<u8> = fl.text.drain(..cut).collect();
            let sse = fl.sse;
            let desc = fl.desc.clone();
            let new_frames = self.parse_frames(&format!("{} [{}]", what, desc), &complete, sse)?;
            let fl = &mut self.follows[k];
            fl.frames.extend(new_frames);
        }
        // compare
        for k in 0..self.follows.len() {
            if !self.follows[k].open {
                continue;
            }
            let (kind, ctx, head_ctx, topic, desc, log_from) = {
                let f = &self.follows[k];
                (f.kind, f.ctx, f.head_ctx, f.topic.clone(), f.desc.clone(), f.log_from)
            };
            // split delivered frames into the history part and the live part
            let frames = self.follows[k].frames.clone();
            let mut live_start = 0usize;
            match kind {
                1 => {
                    let Some(tpos) = frames.iter().position(|f| f.topic == "xs.threshold" && f.ttl == Some(TTL::Ephemeral)) else {
                        return violation("follow/threshold-missing", format!("{}: {} delivered no threshold after its history: [{}]", what, desc, ids(&frames)));
                    };
                    if !self.follows[k].history_checked {
                        // history as of the moment the stream was opened (nothing happened in between)
                        let hist = &frames[..tpos];
                        if let Some(c) = ctx {
                            if let Some(f) = hist.iter().find(|f| f.context_id != c) {
                                return violation("ctx/leak:http-follow", format!("{}: {} delivered {}", what, desc, fmt_frame(f)));
                            }
                        }
                        self.ex.model.check_read(&format!("{} [{} history]", what, desc), ctx, None, None, hist, None)?;
                        self.follows[k].history_checked = true;
                    }
                    live_start = tpos + 1;
                }
                2 => {
                    // head-follow: optionally one head frame first
                    if !self.follows[k].history_checked {
                        let expected_head_possible = self.ex.model.frames.values().any(|m| m.frame.context_id == head_ctx && m.frame.topic == topic);
                        if let Some(first) = frames.first() {
                            let is_pre = self.ex.accepted_log[log_from..].iter().all(|a| a.id != first.id);
                            if is_pre {
                                if first.context_id != head_ctx || first.topic != topic {
                                    return violation("ctx/leak:http-head-follow", format!("{}: {} started with {}", what, desc, fmt_frame(first)));
                                }
                                self.ex.model.check_head(&format!("{} [{} first line]", what, desc), &topic, &head_ctx, Some(first))?;
                                self.follows[k].history_checked = true;
                                self.follows[k].checked = 1;
                            } else {
                                self.ex.model.check_head(&format!("{} [{} no head line]", what, desc), &topic, &head_ctx, None)?;
                                self.follows[k].history_checked = true;
                            }
                        } else {
                            // first drain happens in the same step that opened the stream: no head line
                            // means head() was nothing at that moment
                            let _ = expected_head_possible;
                            self.ex.model.check_head(&format!("{} [{} no head line]", what, desc), &topic, &head_ctx, None)?;
                            self.follows[k].history_checked = true;
                        }
                    }
                    live_start = if self.follows[k].checked > 0 { 1 } else { 0 };
                }
                _ => {}
            }
            let live: Vec<Frame> = frames[live_start.min(frames.len())..].to_vec();
            let expect: Vec<Frame> = self.ex.accepted_log[log_from..]
                .iter()
                .filter(|a| match kind {
                    2 => a.topic == topic && a.context_id == head_ctx,
                    _ => ctx.map(|c| a.context_id == c).unwrap_or(true),
                })
                .cloned()
                .collect();
            // every delivered live frame must be expected, in order, without gaps
            for (i, f) in live.iter().enumerate() {
                match expect.get(i) {
                    Some(e) if crate::model::norm(e) == crate::model::norm(f) => {}
                    _ => {
                        let wrong_ctx = match kind {
                            2 => f.context_id != head_ctx,
                            _ => ctx.map(|c| f.context_id != c).unwrap_or(false),
                        };
                        let class = if wrong_ctx {
                            if kind == 2 {
                                "ctx/leak:http-head-follow"
                            } else {
                                "ctx/leak:http-follow"
                            }
                        } else {
                            "http/follow-unexpected"
                        };
                        return violation(
                            class,
                            format!("{}: {} delivered {} at live position {} but the accepted appends in its scope are [{}]", what, desc, fmt_frame(f), i, ids(&expect)),
                        );
                    }
                }
            }
            if live.len() < expect.len() {
                return violation(
                    "http/follow-missing",
                    format!("{}: {} delivered [{}] but [{}] were appended in its scope since it was opened", what, desc, ids(&live), ids(&expect)),
                );
            }
            if !live.is_empty() {
                self.ex.w.probe("follow:live-frames");
            }
        }
        Ok(())
    }

    fn run(&mut self, plan: &Plan) -> R<()> {
        for (i, st) in plan.ops.iter().enumerate() {
            self.ex.w.log(format!("op{} {}", i, match st {
                Step::S(o) => e3::op_short(o),
                Step::H(h) => short(h),
            }));
            match st {
                Step::S(o) => {
                    self.ex.apply(i, o)?;
                    if matches!(o, Op::GcDrain | Op::Settle) {
                        self.check_cas_of_visible(&format!("op{} (after the collector ran)", i))?;
                    }
                }
                Step::H(h) => self.apply(i, h)?,
            }
            self.drain_follows(&format!("after op{}", i))?;
        }
        Ok(())
    }
}

fn ids(v: &[Frame]) -> String {
    v.iter().map(|f| f.id.to_string()).collect::<Vec<_>>().join(",")
}

fn reclass(e: Stop, class: &str) -> Stop {
    match e {
        Stop::Violation(v) => Stop::Violation(Violation::new(class, v.text)),
        other => other,
    }
}

fn short(op: &HOp) -> String {
    let s = format!("{:?}", op);
    if s.len() > 200 {
        format!("{}..", &s[..200])
    } else {
        s
    }
}

pub fn exec_value(planv: &serde_json::Value, tag: &str) -> RunResult {
    let empty = |h: String| RunResult { violation: None, harness: Some(h), probes: BTreeMap::new(), decisions: 0, sim_ms: 0, trace: vec![], choices: vec![], plan_patch: None };
    let plan: Plan = match serde_json::from_value(planv.clone()) {
        Ok(p) => p,
        Err(e) => return empty(format!("bad plan: {}", e)),
    };
    let mut x = match Exec4::new(tag, &plan) {
        Ok(x) => x,
        Err(Stop::Harness(h)) => return empty(h),
        Err(Stop::Violation(v)) => return RunResult { violation: Some(v), harness: None, probes: BTreeMap::new(), decisions: 0, sim_ms: 0, trace: vec![], choices: vec![], plan_patch: None },
    };
    let res = std::panic::catch_unwind(std::panic::AssertUnwindSafe(|| x.run(&plan)));
    let (violation, harness_e) = match res {
        Ok(Ok(())) => (None, None),
        Ok(Err(Stop::Violation(v))) => (Some(v), None),
        Ok(Err(Stop::Harness(h))) => (None, Some(h)),
        Err(p) => (Some(Violation::new("http/panic", format!("panicked on the scheduler thread: {}", crate::world::panic_msg(&p)))), None),
    };
    let Exec4 { ex, follows, main, .. } = x;
    drop(follows);
    drop(main);
    let (probes, decisions, sim_ms, trace) = ex.finish();
    RunResult { violation, harness: harness_e, probes, decisions, sim_ms, trace, choices: vec![], plan_patch: None }
}

// ---------------------------------------------------------------------------------------
// C20: export a store built by an arbitrary history, import it into an empty one over HTTP

#[derive(Serialize, Deserialize, Clone, Debug)]
pub struct Plan20 {
    pub prop: String,
    pub seed: u64,
    pub pipe: usize,
    pub ops: Vec<Op>,
    pub order_seed: u64,
    pub dup_pct: u32,
    pub reg_last: bool,
}

pub fn generate20(seed: u64, thorough: bool) -> Plan20 {
    let mut cfg = e3::GenCfg::for_prop("C20", thorough);
    cfg.w_flush = 0;
    cfg.w_reopen = 0;
    cfg.w_readasync = 1;
    cfg.w_back = 0;
    cfg.w_register = 6;
    cfg.w_remove = 9;
    cfg.w_import = 5;
    cfg.nul_topics = false;
    cfg.big_meta_max = 7;
    cfg.max_ops = 30;
    let mut rng = Rng::new(seed ^ 0xc20);
    let plan = e3::generate(seed, &cfg);
    Plan20 {
        prop: "C20".to_string(),
        seed,
        pipe: *rng.pick(&[1024usize, 4096, 65536]),
        ops: plan.ops,
        order_seed: rng.next_u64(),
        dup_pct: *rng.pick(&[0u32, 10, 30]),
        reg_last: rng.chance(40),
    }
}

fn run20(x: &mut Exec4, plan: &Plan20) -> R<()> {
    use crate::e1::{observe, Universe};
    // the hashes used by generated appends refer to real content in the source store
    for i in 1..6 {
        let content = format!("content-{}", i % 5);
        x.ex.store().cas_insert_sync(content.as_bytes()).map_err(|e| Stop::Harness(format!("cas_insert_sync: {}", e)))?;
    }
    for (i, op) in plan.ops.iter().enumerate() {
        x.ex.w.log(format!("op{} {}", i, e3::op_short(op)));
        x.ex.apply(i, op)?;
    }
    x.ex.settle("source settle")?;
    // ---- export -----------------------------------------------------------------------
    let frames: Vec<Frame> = x.ex.store().read_sync(None, None, None).collect();
    let mut contents: Vec<(ssri::Integrity, Vec<u8>)> = Vec::new();
    for f in &frames {
        if let Some(h) = &f.hash {
            if !contents.iter().any(|(k, _)| k == h) {
                let b = x.ex.store().cas_read_sync(h).map_err(|e| Stop::Harness(format!("export: content {} unreadable: {}", h, e)))?;
                contents.push((h.clone(), b));
            }
        }
    }
    x.ex.w.probe_n("export:frames", frames.len() as u64);
    if frames.iter().any(|f| f.context_id != ZERO_CONTEXT) {
        x.ex.w.probe("export:multi-context");
    }
    // ---- import into an empty store over HTTP -----------------------------------------
    let tdir = x.ex.w.dir.join("target");
    std::fs::create_dir_all(&tdir).map_err(|e| Stop::Harness(e.to_string()))?;
    let target = x.ex.w.open_store(&tdir)?;
    x.alt_store = Some(target.clone());
    x.main = None;
    let mut rng = Rng::new(plan.order_seed);
    rng.shuffle(&mut contents);
    for (h, b) in &contents {
        let req = http::build_request("POST", "/cas", &[], Some(b), rng.chance(30), 4096);
        match x.request(&req, rng.next_u64(), None, false, false)? {
            Outcome::Resp(r) => {
                if r.status != 200 || String::from_utf8_lossy(&r.body) != h.to_string() {
                    return violation("import/cas-hash", format!("POST /cas of exported content answered {} {:?}, expected hash {}", r.status, String::from_utf8_lossy(&r.body), h));
                }
            }
            Outcome::Dropped(why) => return violation("http/dropped-connection", format!("POST /cas during import: {}", why)),
            Outcome::Cut | Outcome::Stalled => {}
        }
    }
    let mut order: Vec<Frame> = frames.clone();
    rng.shuffle(&mut order);
    if plan.reg_last {
        // context registrations after the frames that use them
        order.sort_by_key(|f| (f.topic == "xs.context") as u8);
        x.ex.w.probe("import:registrations-last");
    }
    let mut seq: Vec<Frame> = Vec::new();
    for f in &order {
        seq.push(f.clone());
        if rng.chance(plan.dup_pct) {
            seq.push(f.clone());
            x.ex.w.probe("import:duplicate");
        }
    }
    // frames that cannot be stored are refused whole
    let bad_pos = rng.below(seq.len() + 1);
    for (i, f) in seq.iter().enumerate() {
        if i == bad_pos {
            let mut bad = f.clone();
            bad.topic = "bad\0topic".to_string();
            bad.id = fresh_id(crate::ctrl::EPOCH_MS - 999, plan.order_seed);
            for body in [serde_json::to_vec(&bad).unwrap(), b"{\"topic\":".to_vec()] {
                let req = http::build_request("POST", "/import", &[], Some(&body), false, 0);
                if let Outcome::Resp(r) = x.request(&req, rng.next_u64(), None, false, false)? {
                    if r.status < 400 {
                        return violation("import/accepted-invalid", format!("POST /import of an unstorable frame answered {}", r.status));
                    }
                }
            }
            if target.get(&bad.id).is_some() {
                return violation("import/partial", "a frame with a NUL topic was refused but is found by id".to_string());
            }
            x.ex.w.probe("import:rejected");
        }
        let body = serde_json::to_vec(f).unwrap();
        let req = http::build_request("POST", "/import", &[], Some(&body), false, 0);
        match x.request(&req, rng.next_u64(), None, false, false)? {
            Outcome::Resp(r) => {
                if r.status != 200 {
                    return violation("import/rejected-valid", format!("POST /import of {} answered {} {:?}", fmt_frame(f), r.status, String::from_utf8_lossy(&r.body)));
                }
            }
            Outcome::Dropped(why) => return violation("http/dropped-connection", format!("POST /import: {}", why)),
            Outcome::Cut | Outcome::Stalled => {}
        }
    }
    // ---- compare ----------------------------------------------------------------------
    let mut uni = Universe::default();
    uni.ctxs.insert(ZERO_CONTEXT);
    for id in &x.ex.issued {
        uni.ids.insert(*id);
    }
    for f in &frames {
        uni.ctxs.insert(f.context_id);
        uni.topics.insert(f.topic.clone());
    }
    for c in &x.ex.reg {
        uni.ctxs.insert(*c);
    }
    for t in e3::TOPICS {
        uni.topics.insert(t.to_string());
    }
    let src = observe(x.ex.store(), &uni);
    let compare = |label: &str, tgt: &crate::e1::Obs| -> R<()> {
        if src.all != tgt.all {
            let a: Vec<String> = src.all.iter().map(|f| f.id.to_string()).collect();
            let b: Vec<String> = tgt.all.iter().map(|f| f.id.to_string()).collect();
            if a != b {
                return violation("import/state-differs", format!("{}: source stream [{}] but target stream [{}]", label, a.join(","), b.join(",")));
            }
            for (p, q) in src.all.iter().zip(tgt.all.iter()) {
                if p != q {
                    return violation("import/state-differs", format!("{}: source holds {} but the target holds {}", label, fmt_frame(p), fmt_frame(q)));
                }
            }
        }
        if src.per_ctx != tgt.per_ctx {
            return violation("import/state-differs", format!("{}: per-context streams differ", label));
        }
        if src.heads != tgt.heads {
            for (k, v) in &src.heads {
                if tgt.heads.get(k) != Some(v) {
                    return violation("import/state-differs", format!("{}: head({:?}, {}) is {:?} in the source but {:?} in the target", label, k.1, short_ctx(&k.0), v.map(|i| i.to_string()), tgt.heads.get(k).cloned().flatten().map(|i| i.to_string())));
                }
            }
        }
        if src.gets != tgt.gets {
            for (k, v) in &src.gets {
                if tgt.gets.get(k) != Some(v) {
                    return violation("import/state-differs", format!("{}: get({}) is {:?} in the source but {:?} in the target", label, k, v.as_ref().map(fmt_frame), tgt.gets.get(k).cloned().flatten().as_ref().map(fmt_frame)));
                }
            }
        }
        Ok(())
    };
    // import must not set the collector in motion: let every collector run dry, then compare
    let steps = x.ex.w.run_kind_until_idle("gc", 100_000)?;
    if steps > 0 {
        x.ex.w.probe("import:gc-ran-after-import");
    }
    let tgt = observe(&target, &uni);
    compare("after import", &tgt)?;
    for (h, b) in &contents {
        match target.cas_read_sync(h) {
            Ok(x2) if x2 == *b => {}
            _ => return violation("import/content-differs", format!("content {} differs or is missing in the target", h)),
        }
    }
    // importing the same frames again changes nothing
    for f in order.iter().take(3) {
        let body = serde_json::to_vec(f).unwrap();
        let req = http::build_request("POST", "/import", &[], Some(&body), false, 0);
        let _ = x.request(&req, 5, None, false, false)?;
    }
    let tgt2 = observe(&target, &uni);
    if tgt2 != tgt {
        return violation("import/not-idempotent", "re-importing frames changed the target store".to_string());
    }
    // usable contexts: same in both stores (probe appends; both stores are disposable now)
    let mut probe_ctxs: Vec<Scru128Id> = uni.ctxs.iter().copied().collect();
    probe_ctxs.push(fresh_id(crate::ctrl::EPOCH_MS - 4242, 99));
    let probe = |st: &xs::store::Store| -> Vec<bool> { probe_ctxs.iter().map(|c| st.append(Frame::builder("probe", *c).ttl(TTL::Ephemeral).build()).is_ok()).collect() };
    let ps = probe(x.ex.store());
    let pt = probe(&target);
    if ps != pt {
        let i = ps.iter().zip(pt.iter()).position(|(a, b)| a != b).unwrap();
        return violation(
            "import/contexts-differ",
            format!("context {} accepts appends = {} in the source but {} in the freshly imported target", short_ctx(&probe_ctxs[i]), ps[i], pt[i]),
        );
    }
    x.ex.w.probe("import:compared");
    // ... and again after reopening the target
    x.main = None;
    x.alt_store = None;
    let tdir2 = x.ex.w.dir.join("target2");
    e3::copy_dir_stable(&tdir, &tdir2).map_err(Stop::Harness)?;
    x.ex.w.close_store(target, Some(tdir.clone()))?;
    let target2 = x.ex.w.open_store(&tdir2)?;
    let tgt3 = observe(&target2, &uni);
    compare("after reopening the target", &tgt3).map_err(|e| reclass(e, "import/reopen-differs"))?;
    let pt2 = probe(&target2);
    if pt2 != ps {
        let i = ps.iter().zip(pt2.iter()).position(|(a, b)| a != b).unwrap();
        return violation("import/contexts-differ", format!("context {} accepts appends = {} in the source but {} in the reopened target", short_ctx(&probe_ctxs[i]), ps[i], pt2[i]));
    }
    x.ex.w.close_store(target2, Some(tdir2))?;
    Ok(())
}

pub fn exec_value20(planv: &serde_json::Value, tag: &str) -> RunResult {
    let empty = |h: String| RunResult { violation: None, harness: Some(h), probes: BTreeMap::new(), decisions: 0, sim_ms: 0, trace: vec![], choices: vec![], plan_patch: None };
    let plan: Plan20 = match serde_json::from_value(planv.clone()) {
        Ok(p) => p,
        Err(e) => return empty(format!("bad plan: {}", e)),
    };
    let p4 = Plan { prop: "C20".into(), seed: plan.seed, pipe: plan.pipe, ops: vec![], kill_check: false, stall_seed: 0 };
    let mut x = match Exec4::new(tag, &p4) {
        Ok(x) => x,
        Err(Stop::Harness(h)) => return empty(h),
        Err(Stop::Violation(v)) => return RunResult { violation: Some(v), harness: None, probes: BTreeMap::new(), decisions: 0, sim_ms: 0, trace: vec![], choices: vec![], plan_patch: None },
    };
    let res = std::panic::catch_unwind(std::panic::AssertUnwindSafe(|| run20(&mut x, &plan)));
    let (violation, harness_e) = match res {
        Ok(Ok(())) => (None, None),
        Ok(Err(Stop::Violation(v))) => (Some(v), None),
        Ok(Err(Stop::Harness(h))) => (None, Some(h)),
        Err(p) => (Some(Violation::new("import/panic", format!("panicked: {}", crate::world::panic_msg(&p)))), None),
    };
    let Exec4 { ex, follows, main, alt_store, .. } = x;
    drop(follows);
    drop(main);
    drop(alt_store);
    let (probes, decisions, sim_ms, trace) = ex.finish();
    RunResult { violation, harness: harness_e, probes, decisions, sim_ms, trace, choices: vec![], plan_patch: None }
}
