//! E1: crash consistency by fault enumeration. A sequential workload runs against the real
//! store while simdisk records every mutating file-system operation; then, for EVERY prefix
//! of that log, a process-kill image and (where unsynced bytes exist) power-loss images are
//! materialised, reopened with the real recovery code and compared with the observations the
//! fault-free run made before and after the operation that was in flight.

use std::collections::{BTreeMap, BTreeSet};
use std::io::Write;
use std::time::Duration;

use scru128::Scru128Id;
use serde::{Deserialize, Serialize};
use xs::store::{Frame, Store, TTL, ZERO_CONTEXT};

use crate::ctrl::EPOCH_MS;
use crate::e3::TtlSpec;
use crate::model::{fmt_frame, short_ctx};
use crate::props::RunResult;
use crate::rng::Rng;
use crate::simdisk::{self, DOp, ImageKind, Tree};
use crate::world::{harness, violation, Stop, Violation, World, R};

#[derive(Serialize, Deserialize, Clone, Debug, PartialEq)]
pub enum WOp {
    Register,
    Append { topic: String, ctx: usize, ttl: TtlSpec, meta: usize, cas: Option<(usize, bool)> },
    Remove { nth: usize },
    Import { topic: String, ctx: usize, ttl: TtlSpec, ts_off: i64, salt: u64 },
    ImportReg { salt: u64 },
    /// import an id that is in the store again, under another topic and context: the frame
    /// moves as one operation (old index entries out, new ones in)
    ReImportAs { nth: usize, topic: String, ctx: usize },
    GcStep,
    GcDrain,
    Tick { ms: u64 },
    ReadAll,
    Flush,
    Reopen,
    /// flush, then a major compaction of every partition on the calling thread: segment
    /// files are rewritten, the level manifest replaced, the old segments deleted
    Compact,
}

#[derive(Serialize, Deserialize, Clone, Debug)]
pub struct Plan {
    pub prop: String,
    pub seed: u64,
    pub ops: Vec<WOp>,
    /// replay of one image only: (cut index, kind name, torn bytes)
    #[serde(default)]
    pub only: Option<(usize, String, u64)>,
    #[serde(default)]
    pub log_digest: Option<u64>,
}

const TOPICS: &[&str] = &["a", "ab", "a\u{1}", "t"];

pub fn content_pool(i: usize) -> Vec<u8> {
    match i % 6 {
        0 => b"x".to_vec(),
        1 => b"hello world".to_vec(),
        2 => vec![0xff, 0xfe, 0x00, 0x80, 0x01],
        3 => vec![b'q'; 8192],
        4 => (0..20_000u32).map(|x| (x % 251) as u8).collect(),
        _ => vec![b'z'; 8193],
    }
}

fn meta_of(i: usize) -> Option<serde_json::Value> {
    match i {
        0 => None,
        1 => Some(serde_json::json!({"k": 1})),
        2 => Some(serde_json::json!({"pad": "p".repeat(9000)})),
        _ => Some(serde_json::json!({"pad": "P".repeat(100_000)})),
    }
}

pub fn generate(seed: u64, prop: &str, thorough: bool) -> Plan {
    let mut rng = Rng::new(seed);
    let n = rng.range(3, if thorough { 14 } else { 10 });
    let mut ops = Vec::new();
    if rng.chance(60) {
        ops.push(WOp::Register);
    }
    let mut flushes = 0;
    let mut reopens = 0;
    for _ in 0..n {
        let k = rng.weighted(&[40, 4, 10, 6, 3, 8, 5, 4, 5, 3, 3]);
        let op = match k {
            0 => WOp::Append {
                topic: rng.pick(TOPICS).to_string(),
                ctx: rng.below(3),
                ttl: match rng.weighted(&[45, 10, 20, 20, 5]) {
                    0 => TtlSpec::None,
                    1 => TtlSpec::Forever,
                    2 => TtlSpec::Head(*rng.pick(&[1u32, 2])),
                    3 => TtlSpec::Time(*rng.pick(&[5u64, 1000])),
                    _ => TtlSpec::Ephemeral,
                },
                meta: rng.weighted(&[50, 30, 15, 5]),
                cas: if rng.chance(45) { Some((rng.below(6), rng.chance(50))) } else { None },
            },
            1 => WOp::Register,
            2 => WOp::Remove { nth: rng.below(16) },
            3 => WOp::Import {
                topic: rng.pick(TOPICS).to_string(),
                ctx: rng.below(3),
                ttl: match rng.weighted(&[60, 20, 20]) {
                    0 => TtlSpec::None,
                    1 => TtlSpec::Head(2),
                    _ => TtlSpec::Time(1000),
                },
                ts_off: *rng.pick(&[-5000i64, -1, 0, 50]),
                salt: rng.next_u64(),
            },
            4 => {
                if rng.chance(35) {
                    WOp::ReImportAs { nth: rng.below(16), topic: rng.pick(TOPICS).to_string(), ctx: rng.below(3) }
                } else {
                    WOp::ImportReg { salt: rng.next_u64() }
                }
            }
            5 => WOp::GcStep,
            6 => WOp::GcDrain,
            7 => WOp::Tick { ms: *rng.pick(&[1u64, 5, 1000]) },
            8 => WOp::ReadAll,
            9 => {
                flushes += 1;
                if flushes > 2 {
                    WOp::GcStep
                } else if flushes == 2 {
                    WOp::Compact
                } else {
                    WOp::Flush
                }
            }
            _ => {
                reopens += 1;
                if reopens > 1 {
                    WOp::GcStep
                } else {
                    WOp::Reopen
                }
            }
        };
        ops.push(op);
    }
    // a crash during compaction: some workloads compact after their flush
    if let Some(fp) = ops.iter().position(|o| matches!(o, WOp::Flush)) {
        if !ops.iter().any(|o| matches!(o, WOp::Compact)) && rng.chance(35) {
            let at = rng.range(fp + 1, ops.len());
            ops.insert(at.min(ops.len()), WOp::Compact);
        }
    }
    Plan {
        prop: prop.to_string(),
        seed,
        ops,
        only: None,
        log_digest: None,
    }
}

#[derive(Clone, Debug, PartialEq)]
pub struct Obs {
    pub all: Vec<Frame>,
    pub per_ctx: BTreeMap<Scru128Id, Vec<Scru128Id>>,
    pub heads: BTreeMap<(Scru128Id, String), Option<Scru128Id>>,
    pub gets: BTreeMap<Scru128Id, Option<Frame>>,
}

#[derive(Clone, Debug, Default)]
pub struct Universe {
    pub ids: BTreeSet<Scru128Id>,
    pub ctxs: BTreeSet<Scru128Id>,
    pub topics: BTreeSet<String>,
}

pub fn observe(store: &Store, u: &Universe) -> Obs {
    let all: Vec<Frame> = store.read_sync(None, None, None).collect();
    let mut per_ctx = BTreeMap::new();
    for c in &u.ctxs {
        let v: Vec<Scru128Id> = store.read_sync(None, None, Some(*c)).map(|f| f.id).collect();
        per_ctx.insert(*c, v);
    }
    let mut heads = BTreeMap::new();
    for c in &u.ctxs {
        for t in &u.topics {
            heads.insert((*c, t.clone()), store.head(t, *c).map(|f| f.id));
        }
    }
    let mut gets = BTreeMap::new();
    for id in &u.ids {
        gets.insert(*id, store.get(id));
    }
    Obs { all, per_ctx, heads, gets }
}

/// Agreement of the access paths inside one observation. Expired-but-uncollected time
/// frames are visible to get/head and hidden from stream reads: they are exempt.
fn consistent(o: &Obs, now: u64) -> Result<(), String> {
    let expired = |f: &Frame| match &f.ttl {
        Some(TTL::Time(d)) => now >= f.id.timestamp().saturating_add(d.as_millis() as u64),
        _ => false,
    };
    let all_ids: BTreeSet<Scru128Id> = o.all.iter().map(|f| f.id).collect();
    for (id, g) in &o.gets {
        match g {
            Some(f) => {
                if expired(f) {
                    continue;
                }
                if !all_ids.contains(id) {
                    return Err(format!("{} is found by id but is not in the all-contexts stream", fmt_frame(f)));
                }
                let in_ctx = o.per_ctx.get(&f.context_id).map(|v| v.contains(id)).unwrap_or(false);
                if !in_ctx {
                    return Err(format!("{} is found by id but not in its context's stream", fmt_frame(f)));
                }
            }
            None => {
                if all_ids.contains(id) {
                    return Err(format!("{} is in the all-contexts stream but not found by id", id));
                }
            }
        }
    }
    for f in &o.all {
        let in_ctx = o.per_ctx.get(&f.context_id).map(|v| v.contains(&f.id)).unwrap_or(true);
        if !in_ctx {
            return Err(format!("{} is in the all-contexts stream but not in its context's stream", fmt_frame(f)));
        }
    }
    for (c, v) in &o.per_ctx {
        for id in v {
            if !all_ids.contains(id) {
                return Err(format!("{} is in context {}'s stream but not in the all-contexts stream", id, short_ctx(c)));
            }
        }
    }
    for ((c, t), h) in &o.heads {
        let want = o.all.iter().rev().find(|f| f.context_id == *c && f.topic == *t).map(|f| f.id);
        if *h != want {
            // an expired, uncollected frame may be the head
            let h_expired = h.and_then(|id| o.gets.get(&id).cloned().flatten()).map(|f| expired(&f)).unwrap_or(false);
            if h_expired {
                continue;
            }
            return Err(format!(
                "head({:?}, {}) = {:?} but the newest frame of that topic in the stream is {:?}",
                t,
                short_ctx(c),
                h.map(|x| x.to_string()),
                want.map(|x| x.to_string())
            ));
        }
    }
    Ok(())
}

fn obs_diff(a: &Obs, b: &Obs) -> String {
    if a.all != b.all {
        let ia: Vec<String> = a.all.iter().map(|f| f.id.to_string()).collect();
        let ib: Vec<String> = b.all.iter().map(|f| f.id.to_string()).collect();
        if ia != ib {
            return format!("stream ids [{}] vs [{}]", ia.join(","), ib.join(","));
        }
        for (x, y) in a.all.iter().zip(b.all.iter()) {
            if x != y {
                return format!("frame {} vs {}", fmt_frame(x), fmt_frame(y));
            }
        }
    }
    if a.per_ctx != b.per_ctx {
        return "per-context streams differ".to_string();
    }
    if a.heads != b.heads {
        for (k, v) in &a.heads {
            if b.heads.get(k) != Some(v) {
                return format!("head({:?},{}) {:?} vs {:?}", k.1, short_ctx(&k.0), v.map(|x| x.to_string()), b.heads.get(k).cloned().flatten().map(|x| x.to_string()));
            }
        }
    }
    if a.gets != b.gets {
        for (k, v) in &a.gets {
            if b.gets.get(k) != Some(v) {
                return format!("get({}) {} vs {}", k, v.as_ref().map(fmt_frame).unwrap_or("none".into()), b.gets.get(k).cloned().flatten().as_ref().map(fmt_frame).unwrap_or("none".into()));
            }
        }
    }
    "equal".to_string()
}

fn fresh_id(ts: u64, salt: u64) -> Scru128Id {
    let mut r = Rng::new(salt);
    Scru128Id::from_fields(ts & 0xFFFF_FFFF_FFFF, r.next_u32() & 0xFF_FFFF, r.next_u32() & 0xFF_FFFF, r.next_u32())
}

struct Rec {
    boundaries: Vec<usize>,
    clocks: Vec<u64>,
    stores_obs: Vec<Obs>,
    cas_expect: BTreeMap<String, Vec<u8>>,
}

/// Wait until fjall's background threads stopped issuing file operations.
fn settle_background() {
    let mut last = simdisk::log_len();
    let mut quiet = 0;
    for _ in 0..400 {
        std::thread::sleep(Duration::from_millis(5));
        let now = simdisk::log_len();
        if now == last {
            quiet += 1;
            if quiet >= 6 {
                return;
            }
        } else {
            quiet = 0;
            last = now;
        }
    }
}

fn canonical_digest(log: &[DOp], root: &str) -> u64 {
    // tmp file names are random: number them by first appearance
    let mut names: Vec<String> = Vec::new();
    let mut canon = |p: &str| -> String {
        let rel = p.strip_prefix(root).unwrap_or(p);
        // tempfile names (".tmpXXXXXX") are random: number them by first appearance
        rel.split('/')
            .map(|comp| {
                if comp.starts_with(".tmp") {
                    let idx = match names.iter().position(|n| n == comp) {
                        Some(i) => i,
                        None => {
                            names.push(comp.to_string());
                            names.len() - 1
                        }
                    };
                    format!(".tmp#{}", idx)
                } else {
                    comp.to_string()
                }
            })
            .collect::<Vec<_>>()
            .join("/")
    };
    let mut s = String::new();
    for op in log {
        let line = match op {
            DOp::Mkdir(p) => format!("mkdir {}", canon(p)),
            DOp::Create { path, trunc } => format!("create {} {}", canon(path), trunc),
            // segment files embed their creation time (real clock inside lsm-tree): length only
            DOp::Write { path, off, data } if path.contains("/segments/") => format!("write {} {} {}", canon(path), off, data.len()),
            DOp::Write { path, off, data } => format!("write {} {} {} {:x}", canon(path), off, data.len(), crate::rng::fnv1a(data)),
            DOp::Truncate { path, len } => format!("trunc {} {}", canon(path), len),
            DOp::Extend { path, len } => format!("extend {} {}", canon(path), len),
            DOp::Fsync(p) => format!("fsync {}", canon(p)),
            DOp::Rename { from, to, .. } => format!("rename {} {}", canon(from), canon(to)),
            DOp::Link { from, to } => format!("link {} {}", canon(from), canon(to)),
            DOp::Unlink(p) => format!("unlink {}", canon(p)),
            DOp::Rmdir(p) => format!("rmdir {}", canon(p)),
            DOp::MmapShared(p) => format!("mmap {}", canon(p)),
        };
        s.push_str(&line);
        s.push('\n');
    }
    crate::rng::fnv1a(s.as_bytes())
}

pub struct Outcome {
    pub images: u64,
    pub cuts: u64,
}

fn run(plan: &Plan, w: &mut World, patch: &mut Option<serde_json::Value>) -> R<Outcome> {
    let root = w.dir.join("live");
    let root_s = root.to_string_lossy().to_string();
    std::fs::create_dir_all(&root).map_err(|e| Stop::Harness(e.to_string()))?;
    let mut uni = Universe::default();
    uni.ctxs.insert(ZERO_CONTEXT);
    for t in TOPICS {
        uni.topics.insert(t.to_string());
    }
    uni.topics.insert("xs.context".to_string());
    // ---- recorded, fault-free run -------------------------------------------------------
    simdisk::start_recording(&root);
    let mut store = w.open_store(&root)?;
    let mut reg: Vec<Scru128Id> = Vec::new();
    let mut issued: Vec<Scru128Id> = Vec::new();
    let mut cas_expect: BTreeMap<String, Vec<u8>> = BTreeMap::new();
    let mut boundaries = vec![simdisk::log_len()];
    let mut clocks = vec![w.ctrl.now()];
    let mut obs: Vec<Obs> = Vec::new();
    let ctx_of = |reg: &Vec<Scru128Id>, k: usize| if k == 0 || reg.is_empty() { ZERO_CONTEXT } else { reg[(k - 1) % reg.len()] };
    // Observations over a growing universe: ids unknown at an earlier boundary cannot exist in
    // the store then, so their absence is implied; we complete earlier observations afterwards.
    obs.push(observe(&store, &uni));
    for (i, op) in plan.ops.iter().enumerate() {
        w.log(format!("op{} {:?}", i, op));
        match op {
            WOp::Register => {
                let f = store.append(Frame::builder("xs.context", ZERO_CONTEXT).build()).map_err(|e| Stop::Harness(format!("register: {}", e)))?;
                reg.push(f.id);
                issued.push(f.id);
                uni.ids.insert(f.id);
                uni.ctxs.insert(f.id);
            }
            WOp::Append { topic, ctx, ttl, meta, cas } => {
                let c = ctx_of(&reg, *ctx);
                let hash = match cas {
                    None => None,
                    Some((ci, sized)) => {
                        let content = content_pool(*ci);
                        let h = if *sized {
                            store.cas_insert_sync(&content).map_err(|e| Stop::Harness(format!("cas_insert_sync: {}", e)))?
                        } else {
                            let mut wr = store.cas_writer_sync().map_err(|e| Stop::Harness(format!("cas_writer_sync: {}", e)))?;
                            wr.write_all(&content).map_err(|e| Stop::Harness(e.to_string()))?;
                            wr.commit().map_err(|e| Stop::Harness(format!("cas commit: {}", e)))?
                        };
                        cas_expect.insert(h.to_string(), content);
                        w.probe(if *sized { "cas:sized" } else { "cas:stream" });
                        Some(h)
                    }
                };
                match store.append(Frame::builder(topic.clone(), c).maybe_hash(hash).maybe_meta(meta_of(*meta)).maybe_ttl(ttl.to_ttl()).build()) {
                    Ok(f) => {
                        issued.push(f.id);
                        uni.ids.insert(f.id);
                        if *meta >= 2 {
                            w.probe("frame:>8KiB");
                        }
                    }
                    Err(_) => {
                        // the context's registration was removed earlier in this workload
                        w.probe("append:rejected");
                    }
                }
            }
            WOp::Remove { nth } => {
                if !issued.is_empty() {
                    let id = issued[nth % issued.len()];
                    store.remove(&id).map_err(|e| Stop::Harness(format!("remove: {}", e)))?;
                    w.probe("remove");
                }
            }
            WOp::Import { topic, ctx, ttl, ts_off, salt } => {
                let c = ctx_of(&reg, *ctx);
                let ts = (w.ctrl.now() as i64 + ts_off).max(1) as u64;
                let mut id = fresh_id(ts, *salt);
                while uni.ids.contains(&id) {
                    id = Scru128Id::from_u128(id.to_u128() + 1);
                }
                let f = Frame::builder(topic.clone(), c).id(id).maybe_ttl(ttl.to_ttl()).build();
                store.insert_frame(&f).map_err(|e| Stop::Harness(format!("import: {}", e)))?;
                issued.push(id);
                uni.ids.insert(id);
                w.probe("import");
            }
            WOp::ReImportAs { nth, topic, ctx } => {
                if !issued.is_empty() {
                    let id = issued[nth % issued.len()];
                    if let Some(old) = store.get(&id) {
                        if old.topic != "xs.context" {
                            let c = ctx_of(&reg, *ctx);
                            let f = Frame { topic: topic.clone(), context_id: c, ..old };
                            store.insert_frame(&f).map_err(|e| Stop::Harness(format!("re-import: {}", e)))?;
                            w.probe("import:same-id-elsewhere");
                        }
                    }
                }
            }
            WOp::ImportReg { salt } => {
                let mut id = fresh_id(w.ctrl.now() - 10, *salt);
                while uni.ids.contains(&id) {
                    id = Scru128Id::from_u128(id.to_u128() + 1);
                }
                let f = Frame::builder("xs.context", ZERO_CONTEXT).id(id).ttl(TTL::Forever).build();
                store.insert_frame(&f).map_err(|e| Stop::Harness(format!("import: {}", e)))?;
                issued.push(id);
                reg.push(id);
                uni.ids.insert(id);
                uni.ctxs.insert(id);
                w.probe("import-registration");
            }
            WOp::GcStep => {
                let en: Vec<_> = w.ctrl.enabled().into_iter().filter(|e| e.actor_kind == "gc").collect();
                if let Some(e) = en.first() {
                    if let crate::ctrl::EnabledKind::Os(ix) = e.kind {
                        w.ctrl.release_os(ix).map_err(Stop::Harness)?;
                        w.probe("gc:step");
                    }
                }
            }
            WOp::GcDrain => {
                // one collector task (or one eviction) at a time, each its own acknowledged step
                loop {
                    let en: Vec<_> = w.ctrl.enabled().into_iter().filter(|e| e.actor_kind == "gc").collect();
                    let Some(e) = en.first() else { break };
                    if let crate::ctrl::EnabledKind::Os(ix) = e.kind {
                        w.ctrl.release_os(ix).map_err(Stop::Harness)?;
                        w.probe("gc:step");
                    }
                    boundaries.push(simdisk::log_len());
                    clocks.push(w.ctrl.now());
                    obs.push(observe(&store, &uni));
                }
            }
            WOp::Tick { ms } => {
                w.ctrl.advance(*ms);
            }
            WOp::ReadAll => {
                let _: Vec<Frame> = store.read_sync(None, None, None).collect();
            }
            WOp::Flush => {
                store.verif_flush().map_err(|e| Stop::Harness(format!("flush: {}", e)))?;
                settle_background();
                w.probe("flush");
            }
            WOp::Compact => {
                store.verif_flush().map_err(|e| Stop::Harness(format!("flush: {}", e)))?;
                settle_background();
                store.verif_compact().map_err(|e| Stop::Harness(format!("compact: {}", e)))?;
                settle_background();
                w.probe("compact");
            }
            WOp::Reopen => {
                // what the collector still has queued (evictions, removals of frames the
                // observations found expired) is worked off first, one task at a time and each
                // its own acknowledged step: a collector pass is not one atomic operation
                loop {
                    let en: Vec<_> = w.ctrl.enabled().into_iter().filter(|e| e.actor_kind == "gc").collect();
                    let Some(e) = en.first() else { break };
                    if let crate::ctrl::EnabledKind::Os(ix) = e.kind {
                        w.ctrl.release_os(ix).map_err(Stop::Harness)?;
                        w.probe("gc:step");
                    }
                    boundaries.push(simdisk::log_len());
                    clocks.push(w.ctrl.now());
                    obs.push(observe(&store, &uni));
                }
                // clean close inside the recording, then recovery on the same directory
                store.verif_shutdown();
                w.run_kind_until_idle("gc", 100_000)?;
                drop(store);
                settle_background();
                store = w.open_store(&root)?;
                settle_background();
                w.probe("reopen-in-recording");
            }
        }
        boundaries.push(simdisk::log_len());
        clocks.push(w.ctrl.now());
        obs.push(observe(&store, &uni));
    }
    settle_background();
    let log = simdisk::stop_recording();
    // complete earlier observations over the final universe (unknown ids/contexts/topics were absent)
    for o in obs.iter_mut() {
        for id in &uni.ids {
            o.gets.entry(*id).or_insert(None);
        }
        for c in &uni.ctxs {
            o.per_ctx.entry(*c).or_insert_with(Vec::new);
            for t in &uni.topics {
                o.heads.entry((*c, t.clone())).or_insert(None);
            }
        }
    }
    let rec = Rec {
        boundaries,
        clocks,
        stores_obs: obs,
        cas_expect,
    };
    // recorder self-check: replaying the whole log reproduces the real directory
    let mut full = Tree::default();
    for op in &log {
        simdisk::apply(&mut full, op);
    }
    if let Err(e) = simdisk::self_check(&full, &root_s, &root) {
        return harness(format!("simdisk self-check failed (an operation escaped the recorder): {}", e));
    }
    let digest = canonical_digest(&log, &root_s);
    if let Some(d) = plan.log_digest {
        if d != digest {
            return harness(format!("replay recorded a different operation log (digest {:x} vs {:x})", digest, d));
        }
    }
    w.log(format!("recorded {} file operations, digest {:x}", log.len(), digest));
    if std::env::var("XS_SIM_DUMP_LOG").is_ok() {
        for (i, op) in log.iter().enumerate() {
            let marks: Vec<String> = rec.boundaries.iter().enumerate().filter(|(_, b)| **b == i).map(|(j, _)| format!("<boundary {}>", j)).collect();
            let h = if let DOp::Write { data, .. } = op { format!(" #{:x}", crate::rng::fnv1a(data)) } else { String::new() };
            w.log(format!("  {:4} {} {}{}", i, marks.join(""), simdisk::describe(op, &root_s), h));
        }
        w.log(format!("  boundaries {:?}", rec.boundaries));
    }
    w.probe_n("disk-ops", log.len() as u64);
    // the live store is done
    w.close_store(store, None)?;

    // ---- crash images -------------------------------------------------------------------
    let mut rng = Rng::new(plan.seed ^ 0xd15c);
    let mut tree = Tree::default();
    let mut images = 0u64;
    let mut cuts = 0u64;
    let mut img_no = 0u64;
    for k in 0..=log.len() {
        if k > 0 {
            simdisk::apply(&mut tree, &log[k - 1]);
        }
        // an image is interesting after every operation that changes what a crash would leave
        if k > 0 && matches!(log[k - 1], DOp::MmapShared(_)) {
            continue;
        }
        cuts += 1;
        let uns = simdisk::unsynced_bytes(&tree);
        let mut kinds = vec![ImageKind::Kill];
        if uns > 0 {
            kinds.push(ImageKind::PowerDropAll);
            let t1 = 1 + rng.below(uns as usize) as u64;
            kinds.push(ImageKind::PowerTorn(t1));
            if uns > 16 {
                let t2 = 1 + rng.below(uns as usize) as u64;
                kinds.push(ImageKind::PowerTorn(t2));
            }
        } else if k > 0 && matches!(log[k - 1], DOp::Fsync(_)) {
            // right after an fsync the power-loss image equals the kill image for that file,
            // but other files may still be unsynced: covered by uns > 0 above
        }
        for kind in kinds {
            if let Some((ok, okind, otorn)) = &plan.only {
                let name = kind_name(kind);
                let torn = if let ImageKind::PowerTorn(n) = kind { n } else { 0 };
                if *ok != k || *okind != name || *otorn != torn {
                    continue;
                }
            }
            if rec.boundaries[0] > k {
                // still inside the creation of the brand-new store: outside the quantifier (see check_image)
                w.probe("cut:during-creation-skipped");
                continue;
            }
            img_no += 1;
            images += 1;
            let dest = w.dir.join(format!("img{}", img_no));
            simdisk::materialise(&tree, &root_s, &dest, kind).map_err(|e| Stop::Harness(format!("materialise: {}", e)))?;
            if let Err(e) = check_image(w, plan, &rec, &uni, &log, &root_s, k, kind, &dest, digest) {
                let torn = if let ImageKind::PowerTorn(n) = kind { n } else { 0 };
                *patch = Some(serde_json::json!({"only": [k, kind_name(kind), torn], "log_digest": digest}));
                return Err(e);
            }
        }
    }
    w.probe_n("images", images);
    w.probe_n("cuts", cuts);
    Ok(Outcome { images, cuts })
}

fn kind_name(k: ImageKind) -> String {
    match k {
        ImageKind::Kill => "kill".to_string(),
        ImageKind::PowerDropAll => "power-drop".to_string(),
        ImageKind::PowerTorn(_) => "torn".to_string(),
    }
}

#[allow(clippy::too_many_arguments)]
fn check_image(w: &mut World, plan: &Plan, rec: &Rec, uni: &Universe, log: &[DOp], root: &str, k: usize, kind: ImageKind, dest: &std::path::Path, digest: u64) -> R<()> {
    // acknowledged operations: those whose boundary is <= k
    let a = rec.boundaries.iter().rposition(|b| *b <= k);
    let what = |extra: &str| {
        let inflight = match a {
            None => "Store::new (creation)".to_string(),
            Some(i) if i + 1 < rec.boundaries.len() => {
                if i == 0 && rec.boundaries.len() > 1 {
                    describe_step(plan, rec, i + 1)
                } else {
                    describe_step(plan, rec, i + 1)
                }
            }
            Some(_) => "nothing (after the last operation)".to_string(),
        };
        let lastop = if k > 0 { simdisk::describe(&log[k - 1], root) } else { "-".to_string() };
        format!(
            "crash image [{} after file operation {}/{} ({}), in flight: {}] {}",
            match kind {
                ImageKind::Kill => "process kill".to_string(),
                ImageKind::PowerDropAll => "power loss, unsynced bytes dropped".to_string(),
                ImageKind::PowerTorn(n) => format!("power loss, {} unsynced bytes survive", n),
            },
            k,
            log.len(),
            lastop,
            inflight,
            extra
        )
    };
    let replay_hint = (k, kind_name(kind), if let ImageKind::PowerTorn(n) = kind { n } else { 0 });
    let _ = (replay_hint, digest);
    if a.is_none() {
        // crash during the creation of a brand-new store (fjall's keyspace creation is not
        // atomic: a half-created directory is refused with InvalidVersion). Nothing was ever
        // acknowledged and no append/remove/import/gc sequence has begun, so these instants are
        // outside the property's quantifier: counted, not judged.
        w.probe("cut:during-creation-skipped");
        let _ = std::fs::remove_dir_all(dest);
        return Ok(());
    }
    let store = match w.open_store(dest) {
        Ok(s) => s,
        Err(Stop::Violation(v)) => {
            return Err(Stop::Violation(Violation::new(
                if a.is_none() { "crash/reopen-failed-creation" } else { "crash/reopen-failed" },
                what(&format!(": {}", v.text)),
            )))
        }
        Err(e) => return Err(e),
    };
    let clock_a = a.map(|i| rec.clocks[i]).unwrap_or(EPOCH_MS);
    w.ctrl.set_now(clock_a);
    let o = match std::panic::catch_unwind(std::panic::AssertUnwindSafe(|| observe(&store, uni))) {
        Ok(o) => o,
        Err(p) => {
            let _ = w.close_store(store, Some(dest.to_path_buf()));
            return violation("crash/read-panicked", what(&format!(": reading the reopened store panicked: {}", crate::world::panic_msg(&p))));
        }
    };
    let empty = Obs {
        all: vec![],
        per_ctx: uni.ctxs.iter().map(|c| (*c, vec![])).collect(),
        heads: uni.ctxs.iter().flat_map(|c| uni.topics.iter().map(move |t| ((*c, t.clone()), None))).collect(),
        gets: uni.ids.iter().map(|i| (*i, None)).collect(),
    };
    let before: &Obs = match a {
        Some(i) => &rec.stores_obs[i],
        None => &empty,
    };
    let after_idx = match a {
        Some(i) => i + 1,
        None => 0,
    };
    let after: Option<&Obs> = rec.stores_obs.get(after_idx);
    let mut ok = o == *before;
    if !ok {
        if let Some(af) = after {
            let clock_b = rec.clocks[after_idx];
            if clock_b != clock_a {
                w.ctrl.set_now(clock_b);
                let o2 = observe(&store, uni);
                ok = o2 == *af;
            } else {
                ok = o == *af;
            }
        }
    }
    let result: R<()> = (|| {
        if !ok {
            // classify: did an acknowledged write get lost, or is the state torn?
            let missing_acked: Vec<String> = before
                .all
                .iter()
                .filter(|f| !o.all.iter().any(|g| g.id == f.id))
                .map(|f| f.id.to_string())
                .collect();
            let class = if !missing_acked.is_empty() {
                "crash/lost-acknowledged"
            } else {
                "crash/state-mismatch"
            };
            return violation(
                class,
                what(&format!(
                    ": the reopened store matches neither the state before the in-flight operation ({}) nor the state after it ({})",
                    obs_diff(&o, before),
                    after.map(|af| obs_diff(&o, af)).unwrap_or_else(|| "-".into())
                )),
            );
        }
        if let Err(e) = consistent(&o, w.ctrl.now()) {
            return violation("crash/inconsistent", what(&format!(": {}", e)));
        }
        // content of visible frames (process kill only)
        if kind == ImageKind::Kill {
            for f in &o.all {
                if let Some(h) = &f.hash {
                    if let Some(want) = rec.cas_expect.get(&h.to_string()) {
                        match store.cas_read_sync(h) {
                            Ok(bytes) => {
                                if bytes != *want {
                                    return violation("crash/cas-corrupt", what(&format!(": content of {} differs from what was written", fmt_frame(f))));
                                }
                            }
                            Err(e) => {
                                return violation("crash/cas-missing", what(&format!(": {} is visible but its content is not retrievable: {}", fmt_frame(f), e)));
                            }
                        }
                    }
                }
            }
        }
        // usable contexts are a function of the stored frames (probe appends; the image is disposable)
        let usable: BTreeSet<Scru128Id> = std::iter::once(ZERO_CONTEXT)
            .chain(o.all.iter().filter(|f| f.context_id == ZERO_CONTEXT && f.topic == "xs.context").map(|f| f.id))
            .collect();
        let mut probe_ctxs: Vec<Scru128Id> = uni.ctxs.iter().copied().collect();
        probe_ctxs.push(fresh_id(EPOCH_MS - 777, 4242));
        for c in probe_ctxs {
            let r = store.append(Frame::builder("probe", c).build());
            if r.is_ok() != usable.contains(&c) {
                return violation(
                    "crash/ctx-usable",
                    what(&format!(
                        ": append into context {} {} although its registration frame {} in the reopened store",
                        short_ctx(&c),
                        if r.is_ok() { "succeeded" } else { "failed" },
                        if usable.contains(&c) { "exists" } else { "does not exist" }
                    )),
                );
            }
        }
        Ok(())
    })();
    match kind {
        ImageKind::Kill => w.probe("image:kill"),
        ImageKind::PowerDropAll => w.probe("image:power-drop"),
        ImageKind::PowerTorn(_) => w.probe("image:torn"),
    }
    if a.map(|i| i + 1 < rec.boundaries.len() && rec.boundaries[i] < k).unwrap_or(false) {
        w.probe("cut:inside-operation");
    }
    w.close_store(store, Some(dest.to_path_buf()))?;
    result
}

fn describe_step(plan: &Plan, rec: &Rec, idx: usize) -> String {
    // boundaries: 0 = open, then one per op, except GcDrain which contributes one per step
    let _ = rec;
    if idx == 0 {
        return "Store::new".to_string();
    }
    // best effort: map boundary index back to the op (GcDrain expands)
    format!("workload step {} of {:?}", idx, plan.ops.iter().map(short).collect::<Vec<_>>())
}

fn short(op: &WOp) -> String {
    match op {
        WOp::Append { topic, ttl, meta, cas, .. } => format!("Append({:?},{:?},meta{},cas{:?})", topic, ttl, meta, cas),
        other => format!("{:?}", other),
    }
}

pub fn exec_value(planv: &serde_json::Value, tag: &str) -> RunResult {
    let empty = |h: String| RunResult { violation: None, harness: Some(h), probes: BTreeMap::new(), decisions: 0, sim_ms: 0, trace: vec![], choices: vec![], plan_patch: None };
    let plan: Plan = match serde_json::from_value(planv.clone()) {
        Ok(p) => p,
        Err(e) => return empty(format!("bad plan: {}", e)),
    };
    let mut w = World::new(tag, plan.seed ^ 0xe1, &[], &["read.subscribed", "live.start", "live.recv", "append.enter", "append.id", "append.committed", "append.sending", "append.broadcast", "remove.enter", "remove.committed"]);
    let mut patch: Option<serde_json::Value> = None;
    let res = std::panic::catch_unwind(std::panic::AssertUnwindSafe(|| run(&plan, &mut w, &mut patch)));
    let _ = simdisk::stop_recording();
    let (violation, harness_e) = match res {
        Ok(Ok(_)) => (None, None),
        Ok(Err(Stop::Violation(v))) => (Some(v), None),
        Ok(Err(Stop::Harness(h))) => (None, Some(h)),
        Err(p) => (None, Some(format!("harness panicked: {}", crate::world::panic_msg(&p)))),
    };
    let (probes, decisions, sim_ms, trace) = w.finish();
    RunResult { violation, harness: harness_e, probes, decisions, sim_ms, trace, choices: vec![], plan_patch: patch }
}
