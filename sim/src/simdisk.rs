//! simdisk: the harness binary interposes libc's mutating file-system entry points
//! (its own `#[no_mangle]` definitions win symbol resolution; the real ones are reached with
//! `dlsym(RTLD_NEXT)`). While recording, every operation on a path under the recording root is
//! appended to an operation log *after* it was carried out for real on tmpfs; crash images
//! are then built from log prefixes. Nothing of fjall or cacache is replaced.

#![allow(clippy::missing_safety_doc)]

use std::cell::Cell;
use std::collections::{BTreeMap, HashMap};
use std::ffi::{CStr, CString};
use std::os::raw::{c_char, c_int, c_uint, c_void};
use std::path::{Path, PathBuf};
use std::sync::atomic::{AtomicBool, AtomicU64, Ordering};
use std::sync::Mutex;

use libc::{mode_t, off64_t, off_t, size_t, ssize_t};

#[derive(Clone, Debug)]
pub enum DOp {
    Mkdir(String),
    /// file created (did not exist before) or truncated by O_TRUNC
    Create { path: String, trunc: bool },
    Write { path: String, off: u64, data: Vec<u8> },
    Truncate { path: String, len: u64 },
    /// ensure the file is at least off+len long (zero filled)
    Extend { path: String, len: u64 },
    Fsync(String),
    /// content of the source at rename time (captures mmap writes)
    Rename { from: String, to: String, content: Option<Vec<u8>> },
    Link { from: String, to: String },
    Unlink(String),
    Rmdir(String),
    /// MAP_SHARED writable mapping established (its stores are invisible; see Rename.content)
    MmapShared(String),
}

struct Rec {
    root: String,
    log: Vec<DOp>,
    fds: HashMap<c_int, String>,
}

static RECORDING: AtomicBool = AtomicBool::new(false);
static REC: Mutex<Option<Rec>> = Mutex::new(None);
pub static CALLS: AtomicU64 = AtomicU64::new(0);

thread_local! {
    static BUSY: Cell<bool> = const { Cell::new(false) };
}

struct Reent;
impl Reent {
    fn enter() -> Option<Reent> {
        BUSY.with(|b| {
            if b.get() {
                None
            } else {
                b.set(true);
                Some(Reent)
            }
        })
    }
}
impl Drop for Reent {
    fn drop(&mut self) {
        BUSY.with(|b| b.set(false));
    }
}

macro_rules! real {
    ($name:literal, $ty:ty) => {{
        static PTR: std::sync::atomic::AtomicUsize = std::sync::atomic::AtomicUsize::new(0);
        let mut p = PTR.load(Ordering::Relaxed);
        if p == 0 {
            p = libc::dlsym(libc::RTLD_NEXT, concat!($name, "\0").as_ptr() as *const c_char) as usize;
            PTR.store(p, Ordering::Relaxed);
        }
        if p == 0 {
            libc::abort();
        }
        std::mem::transmute::<usize, $ty>(p)
    }};
}

pub fn start_recording(root: &Path) {
    let mut g = REC.lock().unwrap();
    *g = Some(Rec {
        root: root.to_string_lossy().to_string(),
        log: Vec::new(),
        fds: HashMap::new(),
    });
    RECORDING.store(true, Ordering::SeqCst);
}

pub fn log_len() -> usize {
    REC.lock().unwrap().as_ref().map(|r| r.log.len()).unwrap_or(0)
}

pub fn stop_recording() -> Vec<DOp> {
    RECORDING.store(false, Ordering::SeqCst);
    let mut g = REC.lock().unwrap();
    g.take().map(|r| r.log).unwrap_or_default()
}

fn with_rec<F: FnOnce(&mut Rec)>(f: F) {
    if !RECORDING.load(Ordering::Relaxed) {
        return;
    }
    let Some(_r) = Reent::enter() else { return };
    let mut g = match REC.lock() {
        Ok(g) => g,
        Err(e) => e.into_inner(),
    };
    if let Some(rec) = g.as_mut() {
        f(rec);
    }
}

unsafe fn cpath(p: *const c_char) -> Option<String> {
    if p.is_null() {
        return None;
    }
    Some(CStr::from_ptr(p).to_string_lossy().to_string())
}

unsafe fn resolve_at(dirfd: c_int, p: *const c_char) -> Option<String> {
    let s = cpath(p)?;
    if s.starts_with('/') || dirfd == libc::AT_FDCWD {
        if s.starts_with('/') {
            Some(s)
        } else {
            std::env::current_dir().ok().map(|d| d.join(&s).to_string_lossy().to_string())
        }
    } else {
        let link = format!("/proc/self/fd/{}", dirfd);
        std::fs::read_link(link).ok().map(|d| d.join(&s).to_string_lossy().to_string())
    }
}

fn under(rec: &Rec, p: &str) -> bool {
    p.starts_with(&rec.root)
}

unsafe fn after_open(fd: c_int, path: Option<String>, flags: c_int, existed: bool) {
    if fd < 0 {
        return;
    }
    let Some(path) = path else { return };
    with_rec(|rec| {
        if !under(rec, &path) {
            return;
        }
        let acc = flags & libc::O_ACCMODE;
        let writable = acc == libc::O_WRONLY || acc == libc::O_RDWR;
        if flags & libc::O_DIRECTORY != 0 {
            return;
        }
        if (flags & libc::O_CREAT != 0 && !existed) || (flags & libc::O_TRUNC != 0 && writable) {
            rec.log.push(DOp::Create {
                path: path.clone(),
                trunc: flags & libc::O_TRUNC != 0,
            });
        }
        // read-only descriptors are tracked too: fsync through them makes the file durable
        let _ = writable;
        rec.fds.insert(fd, path);
    });
}

unsafe fn exists(path: &Option<String>) -> bool {
    match path {
        Some(p) => {
            if !RECORDING.load(Ordering::Relaxed) {
                return true;
            }
            let c = CString::new(p.as_str()).unwrap();
            let mut st: libc::stat64 = std::mem::zeroed();
            let f = real!("stat64", unsafe extern "C" fn(*const c_char, *mut libc::stat64) -> c_int);
            f(c.as_ptr(), &mut st) == 0
        }
        None => true,
    }
}

#[no_mangle]
pub unsafe extern "C" fn open(path: *const c_char, flags: c_int, mode: mode_t) -> c_int {
    let f = real!("open", unsafe extern "C" fn(*const c_char, c_int, mode_t) -> c_int);
    let rec = RECORDING.load(Ordering::Relaxed);
    let p = if rec { resolve_at(libc::AT_FDCWD, path) } else { None };
    let ex = if rec { exists(&p) } else { true };
    let fd = f(path, flags, mode);
    if rec {
        CALLS.fetch_add(1, Ordering::Relaxed);
        after_open(fd, p, flags, ex);
    }
    fd
}

#[no_mangle]
pub unsafe extern "C" fn open64(path: *const c_char, flags: c_int, mode: mode_t) -> c_int {
    let f = real!("open64", unsafe extern "C" fn(*const c_char, c_int, mode_t) -> c_int);
    let rec = RECORDING.load(Ordering::Relaxed);
    let p = if rec { resolve_at(libc::AT_FDCWD, path) } else { None };
    let ex = if rec { exists(&p) } else { true };
    let fd = f(path, flags, mode);
    if rec {
        CALLS.fetch_add(1, Ordering::Relaxed);
        after_open(fd, p, flags, ex);
    }
    fd
}

#[no_mangle]
pub unsafe extern "C" fn openat(dirfd: c_int, path: *const c_char, flags: c_int, mode: mode_t) -> c_int {
    let f = real!("openat", unsafe extern "C" fn(c_int, *const c_char, c_int, mode_t) -> c_int);
    let rec = RECORDING.load(Ordering::Relaxed);
    let p = if rec { resolve_at(dirfd, path) } else { None };
    let ex = if rec { exists(&p) } else { true };
    let fd = f(dirfd, path, flags, mode);
    if rec {
        CALLS.fetch_add(1, Ordering::Relaxed);
        after_open(fd, p, flags, ex);
    }
    fd
}

#[no_mangle]
pub unsafe extern "C" fn openat64(dirfd: c_int, path: *const c_char, flags: c_int, mode: mode_t) -> c_int {
    let f = real!("openat64", unsafe extern "C" fn(c_int, *const c_char, c_int, mode_t) -> c_int);
    let rec = RECORDING.load(Ordering::Relaxed);
    let p = if rec { resolve_at(dirfd, path) } else { None };
    let ex = if rec { exists(&p) } else { true };
    let fd = f(dirfd, path, flags, mode);
    if rec {
        CALLS.fetch_add(1, Ordering::Relaxed);
        after_open(fd, p, flags, ex);
    }
    fd
}

#[no_mangle]
pub unsafe extern "C" fn close(fd: c_int) -> c_int {
    let f = real!("close", unsafe extern "C" fn(c_int) -> c_int);
    if RECORDING.load(Ordering::Relaxed) {
        with_rec(|rec| {
            rec.fds.remove(&fd);
        });
    }
    f(fd)
}

unsafe fn cur_pos(fd: c_int) -> i64 {
    let f = real!("lseek64", unsafe extern "C" fn(c_int, off64_t, c_int) -> off64_t);
    f(fd, 0, libc::SEEK_CUR)
}

#[no_mangle]
pub unsafe extern "C" fn write(fd: c_int, buf: *const c_void, n: size_t) -> ssize_t {
    let f = real!("write", unsafe extern "C" fn(c_int, *const c_void, size_t) -> ssize_t);
    let r = f(fd, buf, n);
    if r > 0 && RECORDING.load(Ordering::Relaxed) {
        with_rec(|rec| {
            if let Some(p) = rec.fds.get(&fd).cloned() {
                let pos = cur_pos(fd);
                let data = std::slice::from_raw_parts(buf as *const u8, r as usize).to_vec();
                rec.log.push(DOp::Write {
                    path: p,
                    off: (pos - r as i64).max(0) as u64,
                    data,
                });
            }
        });
    }
    r
}

#[no_mangle]
pub unsafe extern "C" fn pwrite64(fd: c_int, buf: *const c_void, n: size_t, off: off64_t) -> ssize_t {
    let f = real!("pwrite64", unsafe extern "C" fn(c_int, *const c_void, size_t, off64_t) -> ssize_t);
    let r = f(fd, buf, n, off);
    if r > 0 && RECORDING.load(Ordering::Relaxed) {
        with_rec(|rec| {
            if let Some(p) = rec.fds.get(&fd).cloned() {
                let data = std::slice::from_raw_parts(buf as *const u8, r as usize).to_vec();
                rec.log.push(DOp::Write { path: p, off: off as u64, data });
            }
        });
    }
    r
}

#[no_mangle]
pub unsafe extern "C" fn pwrite(fd: c_int, buf: *const c_void, n: size_t, off: off_t) -> ssize_t {
    pwrite64(fd, buf, n, off as off64_t)
}

#[no_mangle]
pub unsafe extern "C" fn writev(fd: c_int, iov: *const libc::iovec, cnt: c_int) -> ssize_t {
    let f = real!("writev", unsafe extern "C" fn(c_int, *const libc::iovec, c_int) -> ssize_t);
    let r = f(fd, iov, cnt);
    if r > 0 && RECORDING.load(Ordering::Relaxed) {
        with_rec(|rec| {
            if let Some(p) = rec.fds.get(&fd).cloned() {
                let pos = cur_pos(fd);
                let mut data = Vec::with_capacity(r as usize);
                let mut left = r as usize;
                for i in 0..cnt as usize {
                    let v = &*iov.add(i);
                    let take = v.iov_len.min(left);
                    data.extend_from_slice(std::slice::from_raw_parts(v.iov_base as *const u8, take));
                    left -= take;
                    if left == 0 {
                        break;
                    }
                }
                rec.log.push(DOp::Write {
                    path: p,
                    off: (pos - r as i64).max(0) as u64,
                    data,
                });
            }
        });
    }
    r
}

unsafe fn after_truncate(fd: c_int, len: i64) {
    with_rec(|rec| {
        if let Some(p) = rec.fds.get(&fd).cloned() {
            rec.log.push(DOp::Truncate { path: p, len: len as u64 });
        }
    });
}

#[no_mangle]
pub unsafe extern "C" fn ftruncate64(fd: c_int, len: off64_t) -> c_int {
    let f = real!("ftruncate64", unsafe extern "C" fn(c_int, off64_t) -> c_int);
    let r = f(fd, len);
    if r == 0 && RECORDING.load(Ordering::Relaxed) {
        after_truncate(fd, len);
    }
    r
}

#[no_mangle]
pub unsafe extern "C" fn ftruncate(fd: c_int, len: off_t) -> c_int {
    ftruncate64(fd, len as off64_t)
}

unsafe fn after_extend(fd: c_int, off: i64, len: i64) {
    with_rec(|rec| {
        if let Some(p) = rec.fds.get(&fd).cloned() {
            rec.log.push(DOp::Extend { path: p, len: (off + len) as u64 });
        }
    });
}

#[no_mangle]
pub unsafe extern "C" fn posix_fallocate64(fd: c_int, off: off64_t, len: off64_t) -> c_int {
    let f = real!("posix_fallocate64", unsafe extern "C" fn(c_int, off64_t, off64_t) -> c_int);
    let r = f(fd, off, len);
    if r == 0 && RECORDING.load(Ordering::Relaxed) {
        after_extend(fd, off, len);
    }
    r
}

#[no_mangle]
pub unsafe extern "C" fn posix_fallocate(fd: c_int, off: off_t, len: off_t) -> c_int {
    posix_fallocate64(fd, off as off64_t, len as off64_t)
}

#[no_mangle]
pub unsafe extern "C" fn fallocate64(fd: c_int, mode: c_int, off: off64_t, len: off64_t) -> c_int {
    let f = real!("fallocate64", unsafe extern "C" fn(c_int, c_int, off64_t, off64_t) -> c_int);
    let r = f(fd, mode, off, len);
    if r == 0 && mode == 0 && RECORDING.load(Ordering::Relaxed) {
        after_extend(fd, off, len);
    }
    r
}

#[no_mangle]
pub unsafe extern "C" fn fallocate(fd: c_int, mode: c_int, off: off_t, len: off_t) -> c_int {
    fallocate64(fd, mode, off as off64_t, len as off64_t)
}

unsafe fn after_sync(fd: c_int) {
    with_rec(|rec| {
        if let Some(p) = rec.fds.get(&fd).cloned() {
            rec.log.push(DOp::Fsync(p));
        }
    });
}

#[no_mangle]
pub unsafe extern "C" fn fsync(fd: c_int) -> c_int {
    let f = real!("fsync", unsafe extern "C" fn(c_int) -> c_int);
    let r = f(fd);
    if r == 0 && RECORDING.load(Ordering::Relaxed) {
        CALLS.fetch_add(1, Ordering::Relaxed);
        after_sync(fd);
    }
    r
}

#[no_mangle]
pub unsafe extern "C" fn fdatasync(fd: c_int) -> c_int {
    let f = real!("fdatasync", unsafe extern "C" fn(c_int) -> c_int);
    let r = f(fd);
    if r == 0 && RECORDING.load(Ordering::Relaxed) {
        CALLS.fetch_add(1, Ordering::Relaxed);
        after_sync(fd);
    }
    r
}

unsafe fn before_rename(from: &Option<String>) -> Option<Vec<u8>> {
    if !RECORDING.load(Ordering::Relaxed) {
        return None;
    }
    let p = from.as_ref()?;
    let root_ok = {
        let g = match REC.lock() {
            Ok(g) => g,
            Err(e) => e.into_inner(),
        };
        g.as_ref().map(|r| under(r, p)).unwrap_or(false)
    };
    if !root_ok {
        return None;
    }
    let _r = Reent::enter()?;
    let md = std::fs::metadata(p).ok()?;
    if md.is_file() {
        std::fs::read(p).ok()
    } else {
        None
    }
}

unsafe fn after_rename(r: c_int, from: Option<String>, to: Option<String>, content: Option<Vec<u8>>) {
    if r != 0 {
        return;
    }
    let (Some(from), Some(to)) = (from, to) else { return };
    with_rec(|rec| {
        if under(rec, &from) || under(rec, &to) {
            for v in rec.fds.values_mut() {
                if *v == from {
                    *v = to.clone();
                }
            }
            rec.log.push(DOp::Rename { from, to, content });
        }
    });
}

#[no_mangle]
pub unsafe extern "C" fn rename(from: *const c_char, to: *const c_char) -> c_int {
    let f = real!("rename", unsafe extern "C" fn(*const c_char, *const c_char) -> c_int);
    let rec = RECORDING.load(Ordering::Relaxed);
    let (pf, pt) = if rec { (resolve_at(libc::AT_FDCWD, from), resolve_at(libc::AT_FDCWD, to)) } else { (None, None) };
    let content = if rec { before_rename(&pf) } else { None };
    let r = f(from, to);
    if rec {
        CALLS.fetch_add(1, Ordering::Relaxed);
        after_rename(r, pf, pt, content);
    }
    r
}

#[no_mangle]
pub unsafe extern "C" fn renameat(fd1: c_int, from: *const c_char, fd2: c_int, to: *const c_char) -> c_int {
    let f = real!("renameat", unsafe extern "C" fn(c_int, *const c_char, c_int, *const c_char) -> c_int);
    let rec = RECORDING.load(Ordering::Relaxed);
    let (pf, pt) = if rec { (resolve_at(fd1, from), resolve_at(fd2, to)) } else { (None, None) };
    let content = if rec { before_rename(&pf) } else { None };
    let r = f(fd1, from, fd2, to);
    if rec {
        CALLS.fetch_add(1, Ordering::Relaxed);
        after_rename(r, pf, pt, content);
    }
    r
}

#[no_mangle]
pub unsafe extern "C" fn renameat2(fd1: c_int, from: *const c_char, fd2: c_int, to: *const c_char, flags: c_uint) -> c_int {
    let f = real!("renameat2", unsafe extern "C" fn(c_int, *const c_char, c_int, *const c_char, c_uint) -> c_int);
    let rec = RECORDING.load(Ordering::Relaxed);
    let (pf, pt) = if rec { (resolve_at(fd1, from), resolve_at(fd2, to)) } else { (None, None) };
    let content = if rec { before_rename(&pf) } else { None };
    let r = f(fd1, from, fd2, to, flags);
    if rec {
        CALLS.fetch_add(1, Ordering::Relaxed);
        after_rename(r, pf, pt, content);
    }
    r
}

#[no_mangle]
pub unsafe extern "C" fn link(from: *const c_char, to: *const c_char) -> c_int {
    let f = real!("link", unsafe extern "C" fn(*const c_char, *const c_char) -> c_int);
    let r = f(from, to);
    if r == 0 && RECORDING.load(Ordering::Relaxed) {
        let (pf, pt) = (resolve_at(libc::AT_FDCWD, from), resolve_at(libc::AT_FDCWD, to));
        if let (Some(pf), Some(pt)) = (pf, pt) {
            with_rec(|rec| {
                if under(rec, &pt) {
                    rec.log.push(DOp::Link { from: pf, to: pt });
                }
            });
        }
    }
    r
}

#[no_mangle]
pub unsafe extern "C" fn linkat(fd1: c_int, from: *const c_char, fd2: c_int, to: *const c_char, flags: c_int) -> c_int {
    let f = real!("linkat", unsafe extern "C" fn(c_int, *const c_char, c_int, *const c_char, c_int) -> c_int);
    let r = f(fd1, from, fd2, to, flags);
    if r == 0 && RECORDING.load(Ordering::Relaxed) {
        let (pf, pt) = (resolve_at(fd1, from), resolve_at(fd2, to));
        if let (Some(pf), Some(pt)) = (pf, pt) {
            with_rec(|rec| {
                if under(rec, &pt) {
                    rec.log.push(DOp::Link { from: pf, to: pt });
                }
            });
        }
    }
    r
}

unsafe fn after_unlink(r: c_int, p: Option<String>, dir: bool) {
    if r != 0 {
        return;
    }
    let Some(p) = p else { return };
    with_rec(|rec| {
        if under(rec, &p) {
            rec.log.push(if dir { DOp::Rmdir(p) } else { DOp::Unlink(p) });
        }
    });
}

#[no_mangle]
pub unsafe extern "C" fn unlink(path: *const c_char) -> c_int {
    let f = real!("unlink", unsafe extern "C" fn(*const c_char) -> c_int);
    let rec = RECORDING.load(Ordering::Relaxed);
    let p = if rec { resolve_at(libc::AT_FDCWD, path) } else { None };
    let r = f(path);
    if rec {
        after_unlink(r, p, false);
    }
    r
}

#[no_mangle]
pub unsafe extern "C" fn unlinkat(dirfd: c_int, path: *const c_char, flags: c_int) -> c_int {
    let f = real!("unlinkat", unsafe extern "C" fn(c_int, *const c_char, c_int) -> c_int);
    let rec = RECORDING.load(Ordering::Relaxed);
    let p = if rec { resolve_at(dirfd, path) } else { None };
    let r = f(dirfd, path, flags);
    if rec {
        after_unlink(r, p, flags & libc::AT_REMOVEDIR != 0);
    }
    r
}

#[no_mangle]
pub unsafe extern "C" fn rmdir(path: *const c_char) -> c_int {
    let f = real!("rmdir", unsafe extern "C" fn(*const c_char) -> c_int);
    let rec = RECORDING.load(Ordering::Relaxed);
    let p = if rec { resolve_at(libc::AT_FDCWD, path) } else { None };
    let r = f(path);
    if rec {
        after_unlink(r, p, true);
    }
    r
}

#[no_mangle]
pub unsafe extern "C" fn mkdir(path: *const c_char, mode: mode_t) -> c_int {
    let f = real!("mkdir", unsafe extern "C" fn(*const c_char, mode_t) -> c_int);
    let r = f(path, mode);
    if r == 0 && RECORDING.load(Ordering::Relaxed) {
        if let Some(p) = resolve_at(libc::AT_FDCWD, path) {
            with_rec(|rec| {
                if under(rec, &p) {
                    rec.log.push(DOp::Mkdir(p));
                }
            });
        }
    }
    r
}

#[no_mangle]
pub unsafe extern "C" fn mkdirat(dirfd: c_int, path: *const c_char, mode: mode_t) -> c_int {
    let f = real!("mkdirat", unsafe extern "C" fn(c_int, *const c_char, mode_t) -> c_int);
    let r = f(dirfd, path, mode);
    if r == 0 && RECORDING.load(Ordering::Relaxed) {
        if let Some(p) = resolve_at(dirfd, path) {
            with_rec(|rec| {
                if under(rec, &p) {
                    rec.log.push(DOp::Mkdir(p));
                }
            });
        }
    }
    r
}

#[no_mangle]
pub unsafe extern "C" fn mmap(addr: *mut c_void, len: size_t, prot: c_int, flags: c_int, fd: c_int, off: off_t) -> *mut c_void {
    let f = real!("mmap", unsafe extern "C" fn(*mut c_void, size_t, c_int, c_int, c_int, off_t) -> *mut c_void);
    let r = f(addr, len, prot, flags, fd, off);
    if fd >= 0 && RECORDING.load(Ordering::Relaxed) && (flags & libc::MAP_SHARED != 0) && (prot & libc::PROT_WRITE != 0) {
        with_rec(|rec| {
            if let Some(p) = rec.fds.get(&fd).cloned() {
                rec.log.push(DOp::MmapShared(p));
            }
        });
    }
    r
}

// ---------------------------------------------------------------------------------------
// image building

/// Sparse file content: `data` holds the bytes up to the highest written offset, the rest of
/// the logical length `len` reads as zeros (journals are 32 MiB preallocations).
#[derive(Clone, Debug, Default, PartialEq)]
pub struct Content {
    pub data: Vec<u8>,
    pub len: u64,
}

impl Content {
    fn write(&mut self, off: u64, bytes: &[u8]) {
        let end = off as usize + bytes.len();
        if self.data.len() < end {
            self.data.resize(end, 0);
        }
        self.data[off as usize..end].copy_from_slice(bytes);
        if self.len < end as u64 {
            self.len = end as u64;
        }
    }
    fn set_len(&mut self, len: u64) {
        self.len = len;
        if (self.data.len() as u64) > len {
            self.data.truncate(len as usize);
        }
    }
    fn byte(&self, i: usize) -> u8 {
        self.data.get(i).copied().unwrap_or(0)
    }
    fn from_bytes(b: &[u8]) -> Content {
        let last = b.iter().rposition(|x| *x != 0).map(|i| i + 1).unwrap_or(0);
        Content { data: b[..last].to_vec(), len: b.len() as u64 }
    }
}

#[derive(Clone, Debug, Default)]
pub struct FileState {
    pub cur: Content,
    /// content as of the last fsync (metadata-only size changes are taken as durable)
    pub durable: Content,
    pub mmap_written: bool,
}

#[derive(Clone, Debug, Default)]
pub struct Tree {
    pub dirs: Vec<String>,
    pub files: BTreeMap<String, FileState>,
}

#[derive(Clone, Copy, Debug, PartialEq)]
pub enum ImageKind {
    /// process kill: every completed operation is kept
    Kill,
    /// power loss: bytes written since the file's last fsync are dropped
    PowerDropAll,
    /// power loss: of the bytes written since the last fsync only the first `n` survive (torn tail)
    PowerTorn(u64),
}

pub fn apply(tree: &mut Tree, op: &DOp) {
    match op {
        DOp::Mkdir(p) => {
            if !tree.dirs.contains(p) {
                tree.dirs.push(p.clone());
            }
        }
        DOp::Create { path, trunc } => {
            let f = tree.files.entry(path.clone()).or_default();
            if *trunc {
                f.cur = Content::default();
                f.durable = Content::default();
            }
        }
        DOp::Write { path, off, data } => {
            let f = tree.files.entry(path.clone()).or_default();
            f.cur.write(*off, data);
        }
        DOp::Truncate { path, len } => {
            let f = tree.files.entry(path.clone()).or_default();
            f.cur.set_len(*len);
            f.durable.set_len(*len);
        }
        DOp::Extend { path, len } => {
            let f = tree.files.entry(path.clone()).or_default();
            if f.cur.len < *len {
                f.cur.set_len(*len);
            }
            if f.durable.len < *len {
                f.durable.set_len(*len);
            }
        }
        DOp::Fsync(path) => {
            if let Some(f) = tree.files.get_mut(path) {
                f.durable = f.cur.clone();
            }
        }
        DOp::Rename { from, to, content } => {
            if let Some(mut f) = tree.files.remove(from) {
                if let Some(c) = content {
                    f.cur = Content::from_bytes(c);
                }
                tree.files.insert(to.clone(), f);
            } else if tree.dirs.contains(from) {
                let prefix = format!("{}/", from);
                tree.dirs = tree
                    .dirs
                    .iter()
                    .map(|d| if d == from { to.clone() } else if d.starts_with(&prefix) { format!("{}/{}", to, &d[prefix.len()..]) } else { d.clone() })
                    .collect();
                let keys: Vec<String> = tree.files.keys().filter(|k| k.starts_with(&prefix)).cloned().collect();
                for k in keys {
                    let f = tree.files.remove(&k).unwrap();
                    tree.files.insert(format!("{}/{}", to, &k[prefix.len()..]), f);
                }
            } else if let Some(c) = content {
                tree.files.insert(
                    to.clone(),
                    FileState {
                        cur: Content::from_bytes(c),
                        durable: Content::default(),
                        mmap_written: false,
                    },
                );
            }
        }
        DOp::Link { from, to } => {
            if let Some(f) = tree.files.get(from).cloned() {
                tree.files.insert(to.clone(), f);
            }
        }
        DOp::Unlink(p) => {
            tree.files.remove(p);
        }
        DOp::Rmdir(p) => {
            tree.dirs.retain(|d| d != p);
        }
        DOp::MmapShared(p) => {
            if let Some(f) = tree.files.get_mut(p) {
                f.mmap_written = true;
            }
        }
    }
}

fn image_content(f: &FileState, kind: ImageKind) -> Content {
    match kind {
        ImageKind::Kill => f.cur.clone(),
        ImageKind::PowerDropAll => {
            let mut c = f.durable.clone();
            // size changes are metadata (taken as durable): keep the current logical length
            c.set_len(f.cur.len.max(0));
            c
        }
        ImageKind::PowerTorn(keep) => {
            let mut c = f.durable.clone();
            c.set_len(f.cur.len);
            // the unsynced bytes, in offset order: the first `keep` of them survive
            let n = f.cur.data.len();
            let mut kept = 0u64;
            for i in 0..n {
                if kept >= keep {
                    break;
                }
                let cb = f.cur.data[i];
                if c.byte(i) != cb {
                    c.write(i as u64, &[cb]);
                    kept += 1;
                }
            }
            c.set_len(f.cur.len);
            c
        }
    }
}

/// Write the tree below `dest`, translating paths from `root`. Sparse-aware.
pub fn materialise(tree: &Tree, root: &str, dest: &Path, kind: ImageKind) -> std::io::Result<()> {
    let _ = std::fs::remove_dir_all(dest);
    std::fs::create_dir_all(dest)?;
    let map = |p: &str| -> PathBuf {
        let rel = p.strip_prefix(root).unwrap_or(p).trim_start_matches('/');
        dest.join(rel)
    };
    for d in &tree.dirs {
        std::fs::create_dir_all(map(d))?;
    }
    for (p, f) in &tree.files {
        let target = map(p);
        if let Some(parent) = target.parent() {
            std::fs::create_dir_all(parent)?;
        }
        // the power-loss model of the property: journal bytes not yet fsynced are dropped;
        // every other file keeps all completed writes
        let is_journal = p.contains("/journals/");
        let content = image_content(f, if is_journal { kind } else { ImageKind::Kill });
        let file = std::fs::File::create(&target)?;
        file.set_len(content.len)?;
        let last = content.data.iter().rposition(|b| *b != 0).map(|i| i + 1).unwrap_or(0);
        if last > 0 {
            use std::os::unix::fs::FileExt;
            file.write_all_at(&content.data[..last], 0)?;
        }
    }
    Ok(())
}

/// Number of bytes that differ between the current and the durable content, over all files.
pub fn unsynced_bytes(tree: &Tree) -> u64 {
    let mut total = 0u64;
    for (p, f) in tree.files.iter() {
        if !p.contains("/journals/") {
            continue;
        }
        let n = f.cur.data.len();
        total += (0..n).filter(|i| f.durable.byte(*i) != f.cur.data[*i]).count() as u64;
    }
    total
}

pub fn describe(op: &DOp, root: &str) -> String {
    let rel = |p: &str| p.strip_prefix(root).unwrap_or(p).to_string();
    match op {
        DOp::Mkdir(p) => format!("mkdir {}", rel(p)),
        DOp::Create { path, trunc } => format!("create{} {}", if *trunc { "+trunc" } else { "" }, rel(path)),
        DOp::Write { path, off, data } => format!("write {} @{} +{}", rel(path), off, data.len()),
        DOp::Truncate { path, len } => format!("truncate {} {}", rel(path), len),
        DOp::Extend { path, len } => format!("extend {} {}", rel(path), len),
        DOp::Fsync(p) => format!("fsync {}", rel(p)),
        DOp::Rename { from, to, .. } => format!("rename {} -> {}", rel(from), rel(to)),
        DOp::Link { from, to } => format!("link {} -> {}", rel(from), rel(to)),
        DOp::Unlink(p) => format!("unlink {}", rel(p)),
        DOp::Rmdir(p) => format!("rmdir {}", rel(p)),
        DOp::MmapShared(p) => format!("mmap-shared {}", rel(p)),
    }
}

/// Compare a tree with the real directory: every file must exist with identical content.
pub fn self_check(tree: &Tree, root: &str, real_root: &Path) -> Result<(), String> {
    let mut real: BTreeMap<String, Vec<u8>> = BTreeMap::new();
    fn walk(p: &Path, out: &mut BTreeMap<String, Vec<u8>>) {
        if let Ok(rd) = std::fs::read_dir(p) {
            for e in rd.flatten() {
                let path = e.path();
                if path.is_dir() {
                    walk(&path, out);
                } else if let Ok(c) = std::fs::read(&path) {
                    out.insert(path.to_string_lossy().to_string(), c);
                }
            }
        }
    }
    walk(real_root, &mut real);
    let _ = root;
    for (p, c) in &real {
        match tree.files.get(p) {
            None => return Err(format!("file {} exists on disk but no recorded operation created it", p)),
            Some(f) => {
                let real_c = Content::from_bytes(c);
                let mut want = f.cur.clone();
                let last = want.data.iter().rposition(|x| *x != 0).map(|i| i + 1).unwrap_or(0);
                want.data.truncate(last);
                if real_c != want {
                    if f.mmap_written {
                        continue;
                    }
                    return Err(format!(
                        "file {} differs from the recorded operations (recorded len {} / {} data bytes, real len {} / {} data bytes)",
                        p,
                        want.len,
                        want.data.len(),
                        real_c.len,
                        real_c.data.len()
                    ));
                }
            }
        }
    }
    for p in tree.files.keys() {
        if !real.contains_key(p) {
            return Err(format!("recorded file {} does not exist on disk", p));
        }
    }
    Ok(())
}
